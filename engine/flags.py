"""Phase-flag abstract interpretation with the re-entrancy fixpoint (DESIGN 2.2).

State = (collecting, finalizing, dropping) in {0,1}^3 plus the values saved by `is_X()` reads
(so that `set_X(saved)` - the replace_state_field! guards - restores exactly what was read)."""
from collections import deque

from .graph import Super, fmt, strip

ST = "state::State::"
FIELDS = {"collecting": 0, "finalizing": 1, "dropping": 2}
GET = {ST + "is_collecting": 0, ST + "is_finalizing": 1, ST + "is_dropping": 2}
SET = {ST + "set_collecting": 0, ST + "set_finalizing": 1, ST + "set_dropping": 2}


def flag_prims(F):
    """npath -> ("get"|"set"|"replace", flag index) for every method of State whose body is a single Cell::get / set / replace on
    one of the three phase cells - read from the bodies, so that an added accessor (e.g. `replace_dropping`) is a primitive too."""
    c = getattr(F, "_flag_prims", None)
    if c is not None:
        return c
    c = {}
    for f in F.fns.values():
        if not f.npath.startswith(ST) or f.kind == "closure":
            continue
        ops = []
        for b in f.blocks:
            t = b["term"]
            if t["k"] == "call" and not t["callee"].get("indirect"):
                ops.append(t["callee"]["path"].replace("core::", "std::"))
        cells = [o for o in ops if o.startswith("std::cell::Cell::<T>::")]
        if len(ops) != 1 or len(cells) != 1:
            continue
        kind = cells[0].rsplit("::", 1)[-1]
        if kind not in ("get", "set", "replace"):
            continue
        # which field: the only place projected from self in the body
        fld = None
        for b in f.blocks:
            for st in b["stmts"]:
                if st["k"] == "assign" and st["rv"]["k"] in ("ref", "rawptr"):
                    for e in st["rv"]["place"]["p"]:
                        if isinstance(e, dict) and e.get("n") in FIELDS:
                            fld = e["n"] if fld in (None, e["n"]) else "?"
        if fld in FIELDS:
            c[f.npath] = (kind, FIELDS[fld])
    # the names the rest of the rule layer uses must agree with what the bodies do
    for np, i in GET.items():
        if np in c and c[np] != ("get", i):
            del c[np]
    for np, i in SET.items():
        if np in c and c[np] != ("set", i):
            del c[np]
    F._flag_prims = c
    return c


def _site_of(e):
    """(site,) if e is the value of a flag read with site identity: a getter call (ctx:bb) or the old value handed back by a
    replace primitive (fn:bbN)."""
    if isinstance(e, tuple) and e and e[0] in ("call", "ret") and len(e) > 3 and e[1].startswith(ST):
        return None, e[3]
    return None


class FlagRun:
    """One dataflow run over a supergraph from one entry flag state."""

    def __init__(self, S, entry_flags, has_finalizing=True):
        self.S = S
        self.entry = tuple(entry_flags)
        self.states = {}   # node idx -> set of (flags tuple, slots frozenset)
        self.prims = flag_prims(S.P.F)
        self._run()

    def _transfer_node(self, n, st):
        """State after executing node n's own effect (before choosing an edge). Returns list of states."""
        flags, slots = st
        if n.ci is not None and not n.inlined and n.ci["k"] == "call":
            np = n.ci["npath"]
            prim = self.prims.get(np)
            if prim and prim[0] == "get":
                site = "%d:%d" % (n.ctx.id, n.bb)
                d = dict(slots)
                d[site] = flags[prim[1]]
                return [(flags, frozenset(d.items()))]
            if prim and prim[0] in ("set", "replace"):
                idx = prim[1]
                if prim[0] == "replace":
                    d0 = dict(slots)
                    d0["%s:bb%d" % (n.ctx.fn.npath, n.bb)] = flags[idx]      # the value handed back
                    d0["%d:%d" % (n.ctx.id, n.bb)] = flags[idx]
                    slots = frozenset(d0.items())
                args = self.S.args_of(n)
                v = args[1] if len(args) > 1 else None
                vals = None
                if isinstance(v, tuple) and v and v[0] == "const":
                    vals = [1 if v[1] else 0]
                else:
                    so = _site_of(strip(v)) if v is not None else None
                    d = dict(slots)
                    if so and so[1] in d:
                        vals = [d[so[1]]]
                    else:
                        vals = [0, 1]   # unknown value written
                out = []
                for x in vals:
                    f2 = list(flags)
                    f2[idx] = x
                    out.append((tuple(f2), slots))
                return out
        return [st]

    def _refine_edge(self, n, lab, st):
        """Filter/refine state along a switch edge on a flag read."""
        if n.kind != "switch" or not isinstance(lab, tuple):
            return st
        e = self.S.switch_expr(n)
        neg = False
        while isinstance(e, tuple) and e and e[0] == "un" and e[1] == "Not":
            neg = not neg
            e = e[2]
        so = _site_of(e)
        if so is None:
            return st
        flags, slots = st
        d = dict(slots)
        if so[1] not in d:
            return st
        val = d[so[1]]
        if neg:
            val = 1 - val
        edge = lab[1]
        if edge == "otherwise":
            ok = val != 0
        else:
            ok = val == edge
        return st if ok else None

    def _run(self):
        S = self.S
        init = (self.entry, frozenset())
        self.states[S.entry.idx] = {init}
        dq = deque([S.entry])
        self.exit_states = {"return": set(), "resume": set()}
        rets = {n.idx for n in S.returns}
        resumes = {n.idx: lab for n, lab in S.resumes}
        while dq:
            n = dq.popleft()
            ins = self.states.get(n.idx, set())
            outs = []
            for st in ins:
                outs.extend(self._transfer_node(n, st))
            for (s, lab) in n.succ:
                l0 = lab[0] if isinstance(lab, tuple) else lab
                if l0 == "ui":
                    continue
                tgt = self.states.setdefault(s.idx, set())
                before = len(tgt)
                for st in outs:
                    r = self._refine_edge(n, lab, st)
                    if r is not None:
                        tgt.add(r)
                if len(tgt) != before:
                    dq.append(s)
            if n.idx in rets and n.ctx is S.root_ctx and n.kind == "return":
                for st in outs:
                    self.exit_states["return"].add(st[0])
            if n.idx in resumes and resumes[n.idx] != "ui":
                for st in outs:
                    self.exit_states["resume"].add(st[0])

    def flags_at(self, n):
        """Flag tuples with which control can reach node n (before its own effect)."""
        return {st[0] for st in self.states.get(n.idx, set())}
