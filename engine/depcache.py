"""Pre-built *third-party* dependencies for the fresh target directories the checks compile in.

Every fact/witness/grid build uses a brand-new CARGO_TARGET_DIR (cargo's freshness cache would otherwise skip the
driver and replay old output). Compiling syn, quote, proc-macro2, thiserror, slotmap ... again for each of them is most of
the cost of a check. A template of a target directory holding ONLY registry dependencies (everything whose name starts with
rust-cc / rust_cc / ccgrid is removed before the template is saved) is copied into each fresh target directory first:
cargo then finds the registry crates fresh and compiles the crate(s) under analysis - never cached, always through the
driver - from /repo's current tree. If flags, lock file or toolchain differ cargo simply rebuilds the dependency."""
import hashlib
import os
import shutil
import subprocess
import tempfile

from . import build

MEMBER_PREFIXES = ("rust-cc", "rust_cc", "librust_cc", "ccgrid", "libccgrid")


def _key(repo, flavor):
    h = hashlib.sha256()
    for f in ("Cargo.lock", "Cargo.toml", "derive/Cargo.toml"):
        p = os.path.join(repo, f)
        if os.path.exists(p):
            h.update(open(p, "rb").read())
    h.update(flavor.encode())
    try:
        h.update(subprocess.check_output(["rustc", "+nightly", "-vV"], text=True).encode())
    except Exception:
        pass
    return h.hexdigest()[:16]


def _strip_members(t):
    for prof in os.listdir(t):
        pd = os.path.join(t, prof)
        if not os.path.isdir(pd):
            continue
        for sub in (".fingerprint", "deps", "build", "incremental", "examples"):
            sd = os.path.join(pd, sub)
            if not os.path.isdir(sd):
                continue
            for name in os.listdir(sd):
                if name.startswith(MEMBER_PREFIXES):
                    p = os.path.join(sd, name)
                    shutil.rmtree(p, ignore_errors=True) if os.path.isdir(p) else os.remove(p)
        for name in os.listdir(pd):
            p = os.path.join(pd, name)
            if os.path.isfile(p) and name.startswith(MEMBER_PREFIXES):
                os.remove(p)


def seed(target_dir, repo, flavor):
    """Copy the template for (lock file, flavor) into the not yet existing target_dir, if there is one."""
    if os.environ.get("VERIF_NO_DEPCACHE") == "1":
        return False
    tpl = os.path.join(build.CACHE, "deps", _key(repo, flavor))
    if not os.path.exists(os.path.join(tpl, "ok")):
        return False
    try:
        shutil.copytree(os.path.join(tpl, "t"), target_dir, symlinks=True)
        return True
    except Exception:
        shutil.rmtree(target_dir, ignore_errors=True)
        return False


def save(target_dir, repo, flavor):
    """After a successful build: keep the registry dependencies of target_dir as the template (once)."""
    if os.environ.get("VERIF_NO_DEPCACHE") == "1":
        return
    tpl = os.path.join(build.CACHE, "deps", _key(repo, flavor))
    if os.path.exists(os.path.join(tpl, "ok")):
        return
    os.makedirs(os.path.join(build.CACHE, "deps"), exist_ok=True)
    tmp = tempfile.mkdtemp(prefix="tpl-", dir=os.path.join(build.CACHE, "deps"))
    try:
        shutil.copytree(target_dir, os.path.join(tmp, "t"), symlinks=True)
        _strip_members(os.path.join(tmp, "t"))
        open(os.path.join(tmp, "ok"), "w").write("ok")
        try:
            os.rename(tmp, tpl)
        except OSError:
            shutil.rmtree(tmp, ignore_errors=True)   # another process saved it first
    except Exception:
        shutil.rmtree(tmp, ignore_errors=True)
