"""Development helpers (not registered checks)."""
import sys
from . import build
from .facts import Facts, pp_term
from .graph import Program, Super, fmt


def load(cfg_index=1, tier_cfgs=None):
    cfgs = tier_cfgs or build.QUICK_CONFIGS
    paths = build.get_lib_facts([cfgs[cfg_index]])
    name = build.cfg_name(*cfgs[cfg_index])
    return Facts(paths[name])


def main(argv):
    cmd = argv[0]
    ci = 1
    if "--config" in argv:
        i = argv.index("--config")
        ci = int(argv[i + 1])
        del argv[i:i + 2]
    F = load(ci)
    if cmd == "mir":
        for f in F.find(argv[1]):
            print(f.pp())
            print()
        return 0
    P = Program(F)
    if cmd == "usites":
        for (f, bb, kind, ci_) in P.usites:
            print(kind, f.npath, "bb%d" % bb, pp_term(f.blocks[bb]["term"])[:140])
        print()
        for fid, ks in sorted(P.mayU.items()):
            if ks:
                print("mayU", P.fns[fid].npath, sorted(ks))
        return 0
    if cmd == "sg":
        f = F.fn(argv[1])
        opaque = set(argv[2].split(",")) if len(argv) > 2 else set()
        from rules import common
        S = Super(P, f, opaque=common.default_opaque(F) | opaque)
        for n in S.nodes:
            line = "N%d [ctx%d %s bb%d]%s" % (n.idx, n.ctx.id, n.ctx.fn.npath.split("::")[-1], n.bb, " cleanup" if n.is_cleanup else "")
            if n.ci is not None and not n.inlined:
                if n.ci["k"] == "call":
                    line += "  CALL %s(%s) U=%s" % (n.ci["npath"], ", ".join(fmt(a) for a in S.args_of(n)), sorted(P.site_mayU(n.ci)))
                else:
                    line += "  DROP %s dtors=%s U=%s" % (n.ci["ty"], [d.split("::", 1)[-1] for d in n.ci["dtors"]], sorted(P.site_mayU(n.ci)))
            elif n.kind == "switch":
                line += "  SWITCH %s" % fmt(S.switch_expr(n))
            else:
                line += "  " + n.kind + (" (inlined %s)" % n.ci["npath"] if n.inlined and n.ci["k"] == "call" else "")
            line += "  -> " + ", ".join("N%d:%s" % (s.idx, lab if not isinstance(lab, tuple) else "sw=%s" % lab[1]) for s, lab in n.succ)
            print(line)
        print("returns:", [n.idx for n in S.returns], "resumes:", [(n.idx, l) for n, l in S.resumes])
        return 0
    return 2
