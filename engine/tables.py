"""Decision tables: enumerate the acyclic paths of a small function into
(conjunction of literals) -> (result, events) and compare with a propositional spec."""
import itertools

from .graph import Super, Ctx, fmt, normalise_literal, strip, _mentions


class PathInfo:
    def __init__(self, S, path):
        self.S = S
        self.path = path
        self.literals = []
        self.events = []      # nodes with non-inlined calls/drops, in order
        self.end = path[-1][0]
        self.infeasible = False
        sym = None
        for i, (n, lab) in enumerate(path):
            if n.ci is not None and not n.inlined:
                self.events.append(n)
            if n.kind == "switch" and isinstance(lab, tuple):
                e = S.switch_expr(n)
                if isinstance(e, tuple) and e and e[0] == "const":
                    continue
                if _mentions_inlined_ret(S, e):
                    # the result of an expanded, loop-free helper with several returns values (`a && b` inside): take the value
                    # this operand has *on this path*; a constant decides feasibility. (Not done for values merged around loops:
                    # an enumerated path runs a loop body at most once and is not representative of the iterations.)
                    if sym is None:
                        sym = SymExec(S, path)
                    e2 = sym.switch_vals.get(i)
                    if isinstance(e2, tuple) and len(e2) == 2 and e2[0] == "discr":
                        vi = S.variant_index(strip(e2[1]))
                        if vi is not None:
                            e2 = ("const", vi)      # the discriminant of a value built on this very path
                    if isinstance(e2, tuple) and e2 and e2[0] == "const" and isinstance(e2[1], int):
                        vals = [v for v, _ in n.term["targets"]]
                        taken = lab[1]
                        if (taken == "otherwise" and e2[1] in vals) or (taken != "otherwise" and taken != e2[1]):
                            self.infeasible = True
                        continue
                    if e2 is not None and not _mentions(e2, ("phi",)) and not _mentions_inlined_ret(S, e2):
                        e = e2
                for lit in normalise_literal(e, lab[1], n.term):
                    self.literals.append(lit)

    def calls(self, *npaths):
        s = set(npaths)
        return [n for n in self.events if n.ci["k"] == "call" and n.ci["npath"] in s]

    def retval(self):
        """Value of the root function's `_0` along this path (last assignment wins)."""
        S = self.S
        root = S.root_ctx
        val = None
        for (n, lab) in self.path:
            if n.ctx is not root:
                continue
            for s in n.stmts:
                if s["k"] == "assign" and s["place"]["l"] == 0 and not s["place"]["p"]:
                    val = S.resolve_rv(root, s["rv"], None)
            t = n.term
            if t["k"] == "call" and t["dest"]["l"] == 0 and not t["dest"]["p"]:
                val = S.resolve_call_value(root, n.bb)
        if val is not None and _mentions_inlined_ret(S, val):
            # the result of an expanded loop-free helper with several return values: the value it returns on this very path
            v2 = SymExec(S, self.path).retval
            if v2 is not None and not _mentions(v2, ("phi",)):
                return v2
        return val

    def describe(self):
        return " & ".join("%s%s" % ("" if tr is True else ("!" if tr is False else ""), fmt_atom(a) + ("" if tr in (True, False) else "=%s" % (tr,))) for a, tr in self.literals) or "true"


def _acyclic(fn):
    c = getattr(fn, "_acyclic", None)
    if c is None:
        succ = {}
        for bi, b in enumerate(fn.blocks):
            t = b["term"]
            k = t["k"]
            out = []
            if k == "goto":
                out = [t["target"]]
            elif k == "switch":
                out = [tb for _, tb in t["targets"]] + [t["otherwise"]]
            elif k in ("call", "drop", "assert") and t.get("target") is not None:
                out = [t["target"]]
            succ[bi] = out
        color = {}
        c = True
        stack = [(0, iter(succ.get(0, ())))]
        color[0] = 1
        while stack and c:
            v, it = stack[-1]
            for w in it:
                if color.get(w) == 1:
                    c = False
                    break
                if w not in color:
                    color[w] = 1
                    stack.append((w, iter(succ.get(w, ()))))
                    break
            else:
                color[v] = 2
                stack.pop()
        fn._acyclic = c
    return c


def _inlined_sites(S):
    c = getattr(S, "_inlined_sites", None)
    if c is None:
        # direct (or devirtualised) calls only: wrappers and higher-order combinators keep their summarised `ret` value
        c = {"%s:bb%d" % (x.call_node.ctx.fn.npath, x.call_node.bb) for x in S.ctxs
             if x.call_node is not None and x.via in ("call", "virtual") and x.call_node.term["k"] == "call" and _acyclic(x.fn)}
        S._inlined_sites = c
    return c


def _mentions_inlined_ret(S, e):
    """`ret` of a call that was expanded in S: the resolver could not give the callee's result a single value."""
    if isinstance(e, tuple):
        if e and e[0] == "ret" and len(e) > 3 and e[3] in _inlined_sites(S):
            return True
        return any(_mentions_inlined_ret(S, x) for x in e)
    return False


def fmt_atom(a):
    if a[0] == "cmp":
        return "(%s %s %s)" % (fmt(a[2]), a[1], fmt(a[3]))
    if a[0] == "bool":
        return fmt(a[1])
    if a[0] in ("discr", "val"):
        return "%s(%s)" % (a[0], fmt(a[1]))
    return str(a)


def normal_paths(S, frm=None, limit=5000, max_visits=1):
    """All normal (non-unwinding) paths from entry to a return of the root function or a diverging end."""
    frm = frm or S.entry
    rets = {n.idx for n in S.returns}
    ps = S.paths(frm, lambda n: n.idx in rets and n.ctx is S.root_ctx and n.kind == "return", exclude=("u", "ui"), limit=limit, max_visits=max_visits)
    out = []
    for p in ps:
        end = p[-1][0]
        if not (end.kind == "return" and end.ctx is S.root_ctx):
            continue   # diverging ends (internal panics, unreachable) are not normal paths
        pi = PathInfo(S, p)
        if pi.infeasible:
            continue   # a switch on this path tests a value that is a different constant on this very path
        out.append(pi)
    return out


def closure_result_on_path(p, wrapper="state::try_state"):
    """For a path through `wrapper(closure)`: ('skipped',) if the closure was not run, else ('ran', last value assigned
    to the closure's _0 on this path) - lets a rule discard paths whose later tests on the wrapper's result contradict it."""
    S = p.S
    res = {}
    for i, (n, lab) in enumerate(p.path):
        if n.ci is not None and n.ci["k"] == "call" and n.ci["npath"] == wrapper and n.inlined:
            site = "%s:bb%d" % (n.ctx.fn.npath, n.bb)
            if lab == "skip":
                res[site] = ("skipped",)
            else:
                # the closure ctx entered from this node
                sub = None
                for (m, l2) in p.path[i + 1:]:
                    if m.ctx.call_node is n:
                        sub = m.ctx
                        break
                val = None
                if sub is not None:
                    for (m, l2) in p.path[i + 1:]:
                        if m.ctx is sub:
                            for st in m.stmts:
                                if st["k"] == "assign" and st["place"]["l"] == 0 and not st["place"]["p"]:
                                    val = S.resolve_rv(sub, st["rv"], None)
                            t = m.term
                            if t["k"] == "call" and t["dest"]["l"] == 0 and not t["dest"]["p"]:
                                val = S.resolve_call_value(sub, m.bb)
                res[site] = ("ran", val)
    return res


def consistent_with_closure_result(p, wrapper="state::try_state"):
    """False if the path tests the wrapper's Result/Option result in a way that contradicts what the closure did on this path."""
    cr = closure_result_on_path(p, wrapper)
    for a, t in p.literals:
        if a[0] != "discr":
            continue
        e = strip(a[1])
        # discr(res): Ok = 0, Err = 1
        if isinstance(e, tuple) and e and e[0] == "ret" and e[1] == wrapper and e[3] in cr:
            is_ok = t in (("is", 0), ("not", 1))
            if cr[e[3]][0] == "skipped" and is_ok:
                return False
            if cr[e[3]][0] == "ran" and not is_ok:
                return False
        # discr((res as Ok).0): the closure's own value; Option: None = 0, Some = 1
        if isinstance(e, tuple) and e and e[0] == "field" and isinstance(e[1], tuple) and e[1][0] == "as" and e[1][2] == "Ok":
            r = strip(e[1][1])
            if isinstance(r, tuple) and r and r[0] == "ret" and r[1] == wrapper and r[3] in cr and cr[r[3]][0] == "ran":
                v = cr[r[3]][1]
                if isinstance(v, tuple) and v and v[0] == "agg" and v[2].endswith(("Option::Some", "Option::None")):
                    some = v[2].endswith("Option::Some")
                    lit_some = t in (("is", 1), ("not", 0))
                    if some != lit_some:
                        return False
    return True


def closure_value(S, env_expr, args=None):
    """Symbolic return value of a single-path crate closure given its environment expression."""
    env = strip(env_expr)
    if not (isinstance(env, tuple) and env and env[0] == "env" and env[1] in S.P.fns):
        return None
    cf = S.P.fns[env[1]]
    if not S._single_path(cf):
        return None
    bind = {1: env}
    for i in range(2, cf.arg_count + 1):
        bind[i] = (args[i - 2] if args and i - 2 < len(args) else ("cbarg", cf.id, i, "", None))
    sub = Ctx(-1, cf, S.root_ctx, None, bind, [], [], 1, "value")
    return S.resolve_local(sub, 0)


class TableMismatch(Exception):
    pass


def check_table(paths, atomise, spec, result_of, atoms, dont_care=None):
    """paths: [PathInfo] (returning paths only). atomise(atom, truth) -> (name, bool) | 'ignore' | None.
    spec(assign: dict name->bool) -> expected result. result_of(pathinfo, assign) -> implementation result.
    Returns list of problems (strings)."""
    problems = []
    rows = []
    for p in paths:
        lits = {}
        preds = []
        bad = False
        for (a, tr) in p.literals:
            r = atomise(a, tr)
            if r == "ignore":
                continue
            if r is None:
                problems.append("unrecognised-guard: %s%s on path [%s]" % ("" if tr is True else "not " if tr is False else "", fmt_atom(a) + ("" if tr in (True, False) else " %s" % (tr,)), p.describe()))
                bad = True
                continue
            if r[0] == "pred":
                preds.append(r[1])    # a constraint that is not a single literal, e.g. not (a and b): a predicate over the assignment
                continue
            name, val = r
            if name in lits and lits[name] != val:
                bad = None  # infeasible path (contradictory literals)
                break
            lits[name] = val
        if bad is None:
            continue
        if bad:
            continue
        rows.append((lits, p, preds))
    if problems:
        return problems
    for values in itertools.product([False, True], repeat=len(atoms)):
        assign = dict(zip(atoms, values))
        if dont_care and dont_care(assign):
            continue
        matching = [(l, p) for (l, p, prs) in rows if all(assign[k] == v for k, v in l.items()) and all(f(assign) for f in prs)]
        exp = spec(assign)
        if not matching:
            problems.append("no path covers %s (expected %s)" % (assign, exp))
            continue
        results = set()
        for (l, p) in matching:
            try:
                results.add(result_of(p, assign))
            except TableMismatch as e:
                problems.append("cannot evaluate result on path [%s]: %s" % (p.describe(), e))
        for r in results:
            if r != exp:
                problems.append("for %s the implementation yields %s, the specification %s" % ({k: v for k, v in assign.items()}, r, exp))
    return problems


def eval_bool(e, assign, atom_of):
    """Evaluate a boolean expression under an assignment; atom_of(expr) -> name | None."""
    if isinstance(e, tuple) and e:
        if e[0] == "const":
            return bool(e[1])
        a = atom_of(e)
        if a is not None:
            if isinstance(a, tuple):
                return assign[a[0]] == a[1]
            return assign[a]
        if e[0] == "un" and e[1] == "Not":
            return not eval_bool(e[2], assign, atom_of)
        if e[0] == "bin" and e[1] in ("BitAnd",):
            return eval_bool(e[2], assign, atom_of) and eval_bool(e[3], assign, atom_of)
        if e[0] == "bin" and e[1] in ("BitOr",):
            return eval_bool(e[2], assign, atom_of) or eval_bool(e[3], assign, atom_of)
    raise TableMismatch("unrecognised result expression %s" % fmt(e))


# ------------------------------------------------------------------------------------------------
# Path-wise symbolic execution: locals take their value when assigned *on this path*, stores to places and
# cells are remembered, later reads see them. Used where the flow-insensitive resolver is too coarse
# (e.g. `self.first = x; if let Some(n) = self.first`).

from .graph import E_deref, E_ref, E_field, TRANSPARENT, PURE_GETTERS


class SymExec:
    def __init__(self, S, path):
        self.S = S
        self.env = {}
        self.mem = {}
        self.literals = []
        self.stores = []      # (target expr, value expr, node)
        self.calls = []       # (node, args) for non-expanded calls
        self.retval = None
        self.switch_vals = {}   # index in path -> value of the switch operand on this path
        self._run(path)

    # -- evaluation ---------------------------------------------------------------------------
    def local(self, ctx, l):
        k = (ctx.id, l)
        if k in self.env:
            return self.env[k]
        return self.S.resolve_local(ctx, l)

    def read(self, x):
        """Value found at place-expression x (memory first)."""
        k = strip(x)
        if k in self.mem:
            return self.mem[k]
        return x

    def place(self, ctx, p, as_address=False):
        x = self.local(ctx, p["l"])
        n = len(p["p"])
        for i, e in enumerate(p["p"]):
            if e == "*":
                x = E_deref(x)
            elif isinstance(e, dict) and "f" in e:
                x = E_field(x, e["n"], e["f"])
            elif isinstance(e, dict) and "v" in e:
                x = ("as", x, e["v"])
            elif isinstance(e, dict) and "idx" in e:
                x = ("index", x)
            else:
                x = ("proj", x, str(e))
            last = (i == n - 1)
            if not (as_address and last):
                x = self.read(x) if isinstance(e, dict) and "f" in e or e == "*" else x
        return x

    def op(self, ctx, o):
        k = o["k"]
        if k in ("copy", "move"):
            return self.place(ctx, o["place"])
        return self.S.resolve_op(ctx, o)

    def rv(self, ctx, r):
        k = r["k"]
        if k == "use":
            return self.op(ctx, r["op"])
        if k in ("ref", "rawptr"):
            return E_ref(self.place(ctx, r["place"], as_address=True))
        if k == "bin":
            t = ("bin", r["op"], self.op(ctx, r["a"]), self.op(ctx, r["b"]))
            return t + ("float",) if r.get("float") else t
        if k == "un":
            return ("un", r["op"], self.op(ctx, r["a"]))
        if k == "cast":
            x = self.op(ctx, r["op"])
            return ("unsize", x, r["ty"]) if "Unsize" in r["kind"] else x
        if k == "discr":
            return ("discr", self.place(ctx, r["place"]))
        if k == "agg":
            ops = tuple(self.op(ctx, o) for o in r["ops"])
            if r["agg"] == "closure":
                return ("env", r["closure"], ops)
            if r["agg"] == "adt":
                from .facts import norm_path
                return ("agg", "adt", norm_path(r["adt"]) + "::" + r["variant"], ops, tuple(r["fields"]))
            return ("agg", r["agg"], r["agg"], ops, ())
        return self.S.resolve_rv(ctx, r, None)

    # -- walking ----------------------------------------------------------------------------------
    def _run(self, path):
        S = self.S
        for i, (n, lab) in enumerate(path):
            ctx = n.ctx
            for s in n.stmts:
                if s["k"] != "assign":
                    continue
                v = self.rv(ctx, s["rv"])
                if not s["place"]["p"]:
                    self.env[(ctx.id, s["place"]["l"])] = v
                else:
                    tgt = self.place(ctx, s["place"], as_address=True)
                    self.mem[strip(tgt)] = v
                    self.stores.append((tgt, v, n))
            t = n.term
            if t["k"] == "switch" and isinstance(lab, tuple):
                e = self.op(ctx, t["op"])
                self.switch_vals[i] = e
                if not (isinstance(e, tuple) and e and e[0] == "const"):
                    for lit in normalise_literal(e, lab[1], t):
                        self.literals.append(lit)
            elif t["k"] == "call":
                args = tuple(self.op(ctx, a) for a in t["args"])
                if lab == "call" and i + 1 < len(path):
                    sub = path[i + 1][0].ctx
                    if sub.call_node is n and sub.via in ("call", "virtual"):
                        for j, a in enumerate(args):
                            if j < sub.fn.arg_count:
                                self.env[(sub.id, j + 1)] = a
                    elif sub.call_node is n:
                        for l_, v_ in sub.bind.items():
                            self.env.setdefault((sub.id, l_), v_)
                else:
                    ci = n.ci
                    val = self._call_value(n, ci, args)
                    if not t["dest"]["p"]:
                        self.env[(ctx.id, t["dest"]["l"])] = val
                    self.calls.append((n, args))
            if lab == "ret" and i + 1 < len(path):
                # returning from an expanded callee: its _0 flows into the call's destination
                cn = ctx.call_node
                if cn is not None and cn.term["k"] == "call":
                    v = self.local(ctx, 0)
                    d = cn.term["dest"]
                    if not d["p"]:
                        self.env[(cn.ctx.id, d["l"])] = v
            if n.kind == "return" and n.ctx is S.root_ctx:
                self.retval = self.local(n.ctx, 0)

    def _call_value(self, n, ci, args):
        np = ci["npath"]
        if ci["kind"] == "std":
            if np in TRANSPARENT or ci.get("res_npath") in TRANSPARENT:
                return args[0] if args else ("call", np, args)
            if np.endswith("Clone::clone") and args:
                return args[0]
            if np.startswith("std::cell::Cell::<T>::get"):
                k = ("cell", strip(args[0]))
                return self.mem.get(k, ("load", args[0]))
            if np.startswith("std::cell::Cell::<T>::set") and len(args) > 1:
                self.mem[("cell", strip(args[0]))] = args[1]
                self.stores.append((args[0], args[1], n))
                return ("const", "()")
            if np.startswith("std::cell::Cell::<T>::replace") and len(args) > 1:
                k = ("cell", strip(args[0]))
                old = self.mem.get(k, ("load", args[0]))
                self.mem[k] = args[1]
                self.stores.append((args[0], args[1], n))
                return old
            if not np.startswith(("std::", "<")):
                return ("ret", np, args, "%s:bb%d" % (n.ctx.fn.npath, n.bb))
            return ("call", np, args)
        if np in PURE_GETTERS:
            return ("call", np, args)
        return ("ret", np, args, "%s:bb%d" % (n.ctx.fn.npath, n.bb))
