"""Decision tables: enumerate the acyclic paths of a small function into
(conjunction of literals) -> (result, events) and compare with a propositional spec."""
import itertools

from .graph import Super, Ctx, fmt, normalise_literal, strip, _mentions


class PathInfo:
    def __init__(self, S, path):
        self.S = S
        self.path = path
        self.literals = []
        self.events = []      # nodes with non-inlined calls/drops, in order
        self.end = path[-1][0]
        for (n, lab) in path:
            if n.ci is not None and not n.inlined:
                self.events.append(n)
            if n.kind == "switch" and isinstance(lab, tuple):
                e = S.switch_expr(n)
                if isinstance(e, tuple) and e and e[0] == "const":
                    continue
                for lit in normalise_literal(e, lab[1], n.term):
                    self.literals.append(lit)

    def calls(self, *npaths):
        s = set(npaths)
        return [n for n in self.events if n.ci["k"] == "call" and n.ci["npath"] in s]

    def retval(self):
        """Value of the root function's `_0` along this path (last assignment wins)."""
        S = self.S
        root = S.root_ctx
        val = None
        for (n, lab) in self.path:
            if n.ctx is not root:
                continue
            for s in n.stmts:
                if s["k"] == "assign" and s["place"]["l"] == 0 and not s["place"]["p"]:
                    val = S.resolve_rv(root, s["rv"], None)
            t = n.term
            if t["k"] == "call" and t["dest"]["l"] == 0 and not t["dest"]["p"]:
                val = S.resolve_call_value(root, n.bb)
        return val

    def describe(self):
        return " & ".join("%s%s" % ("" if tr is True else ("!" if tr is False else ""), fmt_atom(a) + ("" if tr in (True, False) else "=%s" % (tr,))) for a, tr in self.literals) or "true"


def fmt_atom(a):
    if a[0] == "cmp":
        return "(%s %s %s)" % (fmt(a[2]), a[1], fmt(a[3]))
    if a[0] == "bool":
        return fmt(a[1])
    if a[0] in ("discr", "val"):
        return "%s(%s)" % (a[0], fmt(a[1]))
    return str(a)


def normal_paths(S, frm=None, limit=5000, max_visits=1):
    """All normal (non-unwinding) paths from entry to a return of the root function or a diverging end."""
    frm = frm or S.entry
    rets = {n.idx for n in S.returns}
    ps = S.paths(frm, lambda n: n.idx in rets and n.ctx is S.root_ctx and n.kind == "return", exclude=("u", "ui"), limit=limit, max_visits=max_visits)
    out = []
    for p in ps:
        end = p[-1][0]
        if not (end.kind == "return" and end.ctx is S.root_ctx):
            continue   # diverging ends (internal panics, unreachable) are not normal paths
        pi = PathInfo(S, p)
        out.append(pi)
    return out


def closure_result_on_path(p, wrapper="state::try_state"):
    """For a path through `wrapper(closure)`: ('skipped',) if the closure was not run, else ('ran', last value assigned
    to the closure's _0 on this path) - lets a rule discard paths whose later tests on the wrapper's result contradict it."""
    S = p.S
    res = {}
    for i, (n, lab) in enumerate(p.path):
        if n.ci is not None and n.ci["k"] == "call" and n.ci["npath"] == wrapper and n.inlined:
            site = "%s:bb%d" % (n.ctx.fn.npath, n.bb)
            if lab == "skip":
                res[site] = ("skipped",)
            else:
                # the closure ctx entered from this node
                sub = None
                for (m, l2) in p.path[i + 1:]:
                    if m.ctx.call_node is n:
                        sub = m.ctx
                        break
                val = None
                if sub is not None:
                    for (m, l2) in p.path[i + 1:]:
                        if m.ctx is sub:
                            for st in m.stmts:
                                if st["k"] == "assign" and st["place"]["l"] == 0 and not st["place"]["p"]:
                                    val = S.resolve_rv(sub, st["rv"], None)
                            t = m.term
                            if t["k"] == "call" and t["dest"]["l"] == 0 and not t["dest"]["p"]:
                                val = S.resolve_call_value(sub, m.bb)
                res[site] = ("ran", val)
    return res


def consistent_with_closure_result(p, wrapper="state::try_state"):
    """False if the path tests the wrapper's Result/Option result in a way that contradicts what the closure did on this path."""
    cr = closure_result_on_path(p, wrapper)
    for a, t in p.literals:
        if a[0] != "discr":
            continue
        e = strip(a[1])
        # discr(res): Ok = 0, Err = 1
        if isinstance(e, tuple) and e and e[0] == "ret" and e[1] == wrapper and e[3] in cr:
            is_ok = t in (("is", 0), ("not", 1))
            if cr[e[3]][0] == "skipped" and is_ok:
                return False
            if cr[e[3]][0] == "ran" and not is_ok:
                return False
        # discr((res as Ok).0): the closure's own value; Option: None = 0, Some = 1
        if isinstance(e, tuple) and e and e[0] == "field" and isinstance(e[1], tuple) and e[1][0] == "as" and e[1][2] == "Ok":
            r = strip(e[1][1])
            if isinstance(r, tuple) and r and r[0] == "ret" and r[1] == wrapper and r[3] in cr and cr[r[3]][0] == "ran":
                v = cr[r[3]][1]
                if isinstance(v, tuple) and v and v[0] == "agg" and v[2].endswith(("Option::Some", "Option::None")):
                    some = v[2].endswith("Option::Some")
                    lit_some = t in (("is", 1), ("not", 0))
                    if some != lit_some:
                        return False
    return True


def closure_value(S, env_expr, args=None):
    """Symbolic return value of a single-path crate closure given its environment expression."""
    env = strip(env_expr)
    if not (isinstance(env, tuple) and env and env[0] == "env" and env[1] in S.P.fns):
        return None
    cf = S.P.fns[env[1]]
    if not S._single_path(cf):
        return None
    bind = {1: env}
    for i in range(2, cf.arg_count + 1):
        bind[i] = (args[i - 2] if args and i - 2 < len(args) else ("cbarg", cf.id, i, "", None))
    sub = Ctx(-1, cf, S.root_ctx, None, bind, [], [], 1, "value")
    return S.resolve_local(sub, 0)


class TableMismatch(Exception):
    pass


def check_table(paths, atomise, spec, result_of, atoms, dont_care=None):
    """paths: [PathInfo] (returning paths only). atomise(atom, truth) -> (name, bool) | 'ignore' | None.
    spec(assign: dict name->bool) -> expected result. result_of(pathinfo, assign) -> implementation result.
    Returns list of problems (strings)."""
    problems = []
    rows = []
    for p in paths:
        lits = {}
        bad = False
        for (a, tr) in p.literals:
            r = atomise(a, tr)
            if r == "ignore":
                continue
            if r is None:
                problems.append("unrecognised-guard: %s%s on path [%s]" % ("" if tr is True else "not " if tr is False else "", fmt_atom(a) + ("" if tr in (True, False) else " %s" % (tr,)), p.describe()))
                bad = True
                continue
            name, val = r
            if name in lits and lits[name] != val:
                bad = None  # infeasible path (contradictory literals)
                break
            lits[name] = val
        if bad is None:
            continue
        if bad:
            continue
        rows.append((lits, p))
    if problems:
        return problems
    for values in itertools.product([False, True], repeat=len(atoms)):
        assign = dict(zip(atoms, values))
        if dont_care and dont_care(assign):
            continue
        matching = [(l, p) for (l, p) in rows if all(assign[k] == v for k, v in l.items())]
        exp = spec(assign)
        if not matching:
            problems.append("no path covers %s (expected %s)" % (assign, exp))
            continue
        results = set()
        for (l, p) in matching:
            try:
                results.add(result_of(p, assign))
            except TableMismatch as e:
                problems.append("cannot evaluate result on path [%s]: %s" % (p.describe(), e))
        for r in results:
            if r != exp:
                problems.append("for %s the implementation yields %s, the specification %s" % ({k: v for k, v in assign.items()}, r, exp))
    return problems


def eval_bool(e, assign, atom_of):
    """Evaluate a boolean expression under an assignment; atom_of(expr) -> name | None."""
    if isinstance(e, tuple) and e:
        if e[0] == "const":
            return bool(e[1])
        a = atom_of(e)
        if a is not None:
            if isinstance(a, tuple):
                return assign[a[0]] == a[1]
            return assign[a]
        if e[0] == "un" and e[1] == "Not":
            return not eval_bool(e[2], assign, atom_of)
        if e[0] == "bin" and e[1] in ("BitAnd",):
            return eval_bool(e[2], assign, atom_of) and eval_bool(e[3], assign, atom_of)
        if e[0] == "bin" and e[1] in ("BitOr",):
            return eval_bool(e[2], assign, atom_of) or eval_bool(e[3], assign, atom_of)
    raise TableMismatch("unrecognised result expression %s" % fmt(e))
