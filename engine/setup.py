"""MANIFEST.setup_cmd: build the rustc_private driver from files on disk only (offline)."""
import os
import subprocess
import sys

VERIF = os.path.dirname(os.path.dirname(os.path.abspath(__file__)))


def main():
    env = dict(os.environ)
    env["CARGO_NET_OFFLINE"] = "true"
    r = subprocess.run(["cargo", "+nightly", "build", "--offline"], cwd=os.path.join(VERIF, "driver"), env=env)
    if r.returncode != 0:
        print("setup: building the ccfacts driver failed", file=sys.stderr)
        return 1
    drv = os.path.join(VERIF, "driver", "target", "debug", "ccfacts")
    if not os.path.exists(drv):
        print("setup: driver binary missing after build", file=sys.stderr)
        return 1
    print("setup: ok (%s)" % drv)
    return 0
