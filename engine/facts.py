"""Loader and pretty-printer for ccfacts JSON. The rule layer sees only this."""
import json
import re


class Facts:
    def __init__(self, path):
        with open(path) as fh:
            d = json.load(fh)
        self.path = path
        _install_type_aliases(d)
        self.crate = d["crate"]
        self.cfg = d["cfg"]
        self.features = sorted(c.split("=", 1)[1].strip('"') for c in d["cfg"] if c.startswith("feature="))
        self.debug = d["debug_assertions"]
        self.fns = {f["id"]: Fn(f, self) for f in d["fns"]}
        self.adts = {a["id"]: a for a in d["adts"]}
        self.adts_by_path = {}
        for a in d["adts"]:
            self.adts_by_path.setdefault(norm_path(a["path"]), []).append(a)
        self.impls = d["impls"]
        self.statics = d["statics"]
        self.consts = {c["path"]: c for c in d["consts"]}
        self.by_path = {}
        for f in self.fns.values():
            self.by_path.setdefault(f.npath, []).append(f)
        # closures by parent fn
        self.children = {}
        for f in self.fns.values():
            if f.kind == "closure":
                self.children.setdefault(f.parent, []).append(f)

    def has(self, feat):
        return feat in self.features

    def fn(self, npath):
        """Unique function by normalised pretty path; None if absent; error if ambiguous."""
        fs = self.by_path.get(npath, [])
        if not fs:
            return None
        if len(fs) > 1:
            raise KeyError("ambiguous anchor %s: %s" % (npath, [f.id for f in fs]))
        return fs[0]

    def find(self, regex):
        r = re.compile(regex)
        return [f for f in self.fns.values() if r.search(f.npath)]

    def const(self, path_suffix):
        for p, c in self.consts.items():
            if p == path_suffix or p.endswith("::" + path_suffix):
                return c["val"]
        return None


_CRATE_RE = re.compile(r"(?<![\w:])(core|alloc)::")


# Types the rule layer names, by the module path they have in the pinned tree. If one of them is found under another module path
# (moved into a private submodule, say) while its name is still unique in the crate, every path mentioning it is rewritten to the
# known one, so that the move alone changes nothing for the rules.
KNOWN_TYPES = [
    "cc::Cc", "cc::CcBox", "cc::BoxedMetadata", "cc::Metadata", "cc::VTable", "weak::Weak", "weak::NewCyclicWrapper",
    "weak::weak_counter_marker::WeakCounterMarker", "counter_marker::CounterMarker", "counter_marker::Mark", "counter_marker::OverflowError",
    "lists::LinkedList", "lists::PossibleCycles", "lists::LinkedQueue", "lists::Iter", "state::State", "config::Config",
    "trace::Context", "trace::ContextInner", "cleaners::Cleaner", "cleaners::Cleanable", "cleaners::CleaningAction", "cleaners::CleanerMap",
    "utils::ResetMarkDropGuard",
]
PATH_ALIASES = {}


def _install_type_aliases(d):
    PATH_ALIASES.clear()
    paths = [_CRATE_RE.sub("std::", a["path"]) for a in d["adts"]]
    have = set(paths)
    for known in KNOWN_TYPES:
        if known in have:
            continue
        last = known.rsplit("::", 1)[-1]
        cands = [p for p in paths if p.rsplit("::", 1)[-1] == last and "{" not in p and not p.startswith(("<", "std::"))]
        if len(cands) == 1:
            PATH_ALIASES[cands[0]] = known


def norm_path(p):
    """Normalise def_path_str output: std::/core::/alloc:: prefixes unified, no crate prefix; moved known types (see KNOWN_TYPES)."""
    p = _CRATE_RE.sub("std::", p)
    if PATH_ALIASES:
        for a, k in PATH_ALIASES.items():
            if a in p:
                p = re.sub(r"(?<![\w:])" + re.escape(a) + r"(?![\w])", k, p)
    return p


class Fn:
    def __init__(self, d, facts):
        self.d = d
        self.facts = facts
        self.id = d["id"]
        self.path = d["path"]
        self.npath = norm_path(d["path"])
        self.kind = d["kind"]
        self.vis = d["vis"]
        self.unsafe = d["unsafe"]
        self.impl_of = d["impl_of"]
        self.root = d["root"]
        self.parent = d["parent"]
        self.generics = d["generics"]
        self.arg_count = d["arg_count"]
        self.locals = d["locals"]
        self.blocks = d["blocks"]
        self.span = d["span"]
        self.upvars = d.get("upvars", [])
        self.promoted = d.get("promoted", [])

    def __repr__(self):
        return "<Fn %s>" % self.npath

    @property
    def name(self):
        return self.npath

    def local_name(self, i):
        n = self.locals[i]["name"]
        return n if n else "_%d" % i

    def local_ty(self, i):
        return self.locals[i]["ty"]

    # ---- pretty printing -------------------------------------------------------------
    def pp(self):
        out = ["fn %s  [%s]  %s" % (self.npath, self.id, self.span)]
        for i, l in enumerate(self.locals):
            out.append("    let _%d%s: %s" % (i, " (%s)" % l["name"] if l["name"] else "", l["ty"]))
        for i, b in enumerate(self.blocks):
            out.append("  bb%d%s:" % (i, " (cleanup)" if b["cleanup"] else ""))
            for s in b["stmts"]:
                out.append("      " + pp_stmt(s))
            out.append("      " + pp_term(b["term"]))
        return "\n".join(out)


def pp_place(p):
    s = "_%d" % p["l"]
    for e in p["p"]:
        if e == "*":
            s = "(*%s)" % s
        elif isinstance(e, dict) and "f" in e:
            s = "%s.%s" % (s, e["n"])
        elif isinstance(e, dict) and "v" in e:
            s = "(%s as %s)" % (s, e["v"])
        elif isinstance(e, dict) and "idx" in e:
            s = "%s[_%d]" % (s, e["idx"])
        elif isinstance(e, dict) and "cidx" in e:
            s = "%s[%d]" % (s, e["cidx"])
        else:
            s = "%s.<%s>" % (s, e)
    return s


def pp_op(o):
    k = o["k"]
    if k in ("copy", "move"):
        return ("move " if k == "move" else "") + pp_place(o["place"])
    if k == "const":
        if "fn" in o:
            return "fn:" + o["fn"]["path"]
        if "val" in o:
            return "const %s:%s" % (o["val"], o["ty"])
        return "const{%s}" % o["text"][:60]
    return o.get("text", "?")


def pp_rv(r):
    k = r["k"]
    if k == "use":
        return pp_op(r["op"])
    if k == "ref":
        return "&%s%s" % ("mut " if r["mut"] else "", pp_place(r["place"]))
    if k == "rawptr":
        return "&raw %s%s" % ("mut " if r["mut"] else "const ", pp_place(r["place"]))
    if k == "bin":
        return "%s(%s, %s)" % (r["op"], pp_op(r["a"]), pp_op(r["b"]))
    if k == "un":
        return "%s(%s)" % (r["op"], pp_op(r["a"]))
    if k == "cast":
        return "%s as %s (%s)" % (pp_op(r["op"]), r["ty"], r["kind"][:40])
    if k == "discr":
        return "discriminant(%s)" % pp_place(r["place"])
    if k == "agg":
        if r["agg"] == "adt":
            return "%s::%s{%s}" % (r["adt"], r["variant"], ", ".join("%s: %s" % (n, pp_op(o)) for n, o in zip(r["fields"], r["ops"])))
        if r["agg"] == "closure":
            return "closure<%s>{%s}" % (r["closure"], ", ".join(pp_op(o) for o in r["ops"]))
        return "%s(%s)" % (r["agg"], ", ".join(pp_op(o) for o in r["ops"]))
    if k == "tlsref":
        return "tls(%s)" % r["static"]
    return r.get("text", k)


def pp_stmt(s):
    if s["k"] == "assign":
        return "%s = %s%s" % (pp_place(s["place"]), pp_rv(s["rv"]), "   // exp:" + ">".join(s["exp"]) if s["exp"] else "")
    if s["k"] == "setdiscr":
        return "discriminant(%s) = %d" % (pp_place(s["place"]), s["variant"])
    return s.get("text", s["k"])


def pp_unwind(u):
    return "bb%d" % u if isinstance(u, int) else u


def pp_callee(c):
    if c.get("indirect"):
        return "indirect(%s)" % pp_op(c["op"])
    s = c["path"]
    r = c.get("res")
    if r == "unresolved":
        s += " [UNRESOLVED self=%s]" % c.get("self_ty")
    elif r == "virtual":
        s += " [VIRTUAL]"
    elif r and c.get("res_path") and c["res_path"] != c["path"]:
        s += " [-> %s]" % c["res_path"]
    return s


def pp_term(t):
    k = t["k"]
    if k == "goto":
        return "goto bb%d" % t["target"]
    if k == "switch":
        return "switch(%s) [%s, otherwise: bb%d]" % (pp_op(t["op"]), ", ".join("%d: bb%d" % (v, b) for v, b in t["targets"]), t["otherwise"])
    if k == "call":
        return "%s = %s(%s) -> %s unwind %s%s" % (
            pp_place(t["dest"]), pp_callee(t["callee"]), ", ".join(pp_op(a) for a in t["args"]),
            "bb%d" % t["target"] if t["target"] is not None else "!", pp_unwind(t["unwind"]),
            "   // exp:" + ">".join(t["exp"]) if t["exp"] else "")
    if k == "drop":
        return "drop(%s: %s) dtors=%s%s -> bb%d unwind %s" % (pp_place(t["place"]), t["ty"], [d.split("::", 1)[-1] for d in t["dtors"]], " +PARAM" if t["has_param"] else "", t["target"], pp_unwind(t["unwind"]))
    if k == "assert":
        return "assert(%s == %s, %s) -> bb%d unwind %s" % (pp_op(t["cond"]), t["expected"], t["msg"][:30], t["target"], pp_unwind(t["unwind"]))
    return k
