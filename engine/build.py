"""Produce fact files for /repo's *current working tree* (content-hashed cache under /verif/.cache).

Facts come from the `ccfacts` rustc_private driver injected with RUSTC_WORKSPACE_WRAPPER under
`cargo +nightly check --offline` in a fresh temporary target directory (removed afterwards).
Nothing of /repo is executed.
"""
import fcntl
import hashlib
import json
import os
import shutil
import subprocess
import sys
import tempfile
import time

VERIF = os.path.dirname(os.path.dirname(os.path.abspath(__file__)))
REPO = os.environ.get("VERIF_REPO", "/repo")
CACHE = os.path.join(VERIF, ".cache")
DRIVER = os.path.join(VERIF, "driver", "target", "debug", "ccfacts")

# feature lattice (std always on; `derive` off for library rules: it only re-exports the macros)
ALL_FEATURE_SETS = []
for ac in (True, False):
    for fin in (True, False):
        for w in ("", "weak-ptrs", "weak-ptrs,cleaners"):
            fs = ["std"]
            if ac:
                fs.append("auto-collect")
            if fin:
                fs.append("finalization")
            if w:
                fs.extend(w.split(","))
            ALL_FEATURE_SETS.append(tuple(fs))

QUICK_CONFIGS = [
    (("std", "auto-collect", "finalization"), True),                           # default (minus derive)
    (("std", "auto-collect", "finalization", "weak-ptrs", "cleaners"), True),   # everything
    (("std", "auto-collect", "weak-ptrs", "cleaners"), True),                   # everything minus finalization
    (("std", "auto-collect", "finalization", "weak-ptrs"), True),               # weak pointers without cleaners (cleaners implies weak-ptrs: a cfg naming the wrong one of the two shows only here)
    (("std", "auto-collect", "finalization", "weak-ptrs", "cleaners"), False),  # everything with debug assertions off (release-like): code inside debug_assert! / cfg(debug_assertions) is gone
]
THOROUGH_CONFIGS = [(fs, dbg) for fs in ALL_FEATURE_SETS for dbg in (True, False)]
# the crate's internal extra-assertions feature: the rules must hold (and stay silent) there too
THOROUGH_CONFIGS += [
    (("std", "auto-collect", "finalization", "weak-ptrs", "cleaners", "pedantic-debug-assertions"), True),
    (("std", "auto-collect", "finalization", "pedantic-debug-assertions"), True),
]


def cfg_name(features, debug):
    return "+".join(f for f in features if f != "std") + ("|dev" if debug else "|nodebug") if len(features) > 1 else ("none|dev" if debug else "none|nodebug")


def _sysroot():
    return subprocess.check_output(["rustc", "+nightly", "--print", "sysroot"], text=True).strip()


_SYSROOT = None


def sysroot():
    global _SYSROOT
    if _SYSROOT is None:
        _SYSROOT = _sysroot()
    return _SYSROOT


def tree_hash(root=None, extra=()):
    """Content hash of everything that can influence the compiled crate."""
    root = root or REPO
    h = hashlib.sha256()
    paths = []
    for base in ("Cargo.toml", "Cargo.lock", "src", "derive/Cargo.toml", "derive/src"):
        p = os.path.join(root, base)
        if os.path.isfile(p):
            paths.append(p)
        elif os.path.isdir(p):
            for dp, dn, fn in os.walk(p):
                dn.sort()
                for f in sorted(fn):
                    paths.append(os.path.join(dp, f))
    for p in sorted(paths):
        h.update(os.path.relpath(p, root).encode())
        h.update(b"\0")
        with open(p, "rb") as fh:
            h.update(fh.read())
        h.update(b"\0")
    # the driver is part of the key
    for p in (os.path.join(VERIF, "driver", "src", "main.rs"), os.path.join(VERIF, "driver", "src", "json.rs")):
        with open(p, "rb") as fh:
            h.update(fh.read())
    for e in extra:
        h.update(str(e).encode())
    return h.hexdigest()[:20]


def ensure_driver():
    if not os.path.exists(DRIVER):
        raise SystemExit("ccfacts driver not built: run `./vf setup` (MANIFEST.setup_cmd) first")


def _env(out_dir, target_dir, crates, debug):
    env = dict(os.environ)
    env["LD_LIBRARY_PATH"] = os.path.join(sysroot(), "lib") + ":" + env.get("LD_LIBRARY_PATH", "")
    flags = "-Zmir-opt-level=0 -Awarnings"
    if not debug:
        flags += " -C debug-assertions=off"
    env["RUSTFLAGS"] = flags
    env["RUSTC_WORKSPACE_WRAPPER"] = DRIVER
    env["CCFACTS_OUT"] = out_dir
    env["CCFACTS_CRATES"] = ",".join(crates)
    env["CARGO_TARGET_DIR"] = target_dir
    env["CARGO_NET_OFFLINE"] = "true"
    env.pop("RUSTC_WRAPPER", None)
    return env


def _tmp_root():
    # scratch space outside /repo and /verif; removed before returning
    return tempfile.mkdtemp(prefix="ccfacts-")


def build_lib_facts(features, debug, dest, repo=None):
    """Run the driver over the library crate for one configuration; write dest (json)."""
    repo = repo or REPO
    ensure_driver()
    tmp = _tmp_root()
    try:
        out = os.path.join(tmp, "out")
        os.makedirs(out)
        from . import depcache
        flavor = "lib-dev" if debug else "lib-nodebug"
        depcache.seed(os.path.join(tmp, "t"), repo, flavor)
        cmd = ["cargo", "+nightly", "check", "--offline", "--lib", "--no-default-features", "-F", ",".join(features)]
        r = subprocess.run(cmd, cwd=repo, env=_env(out, os.path.join(tmp, "t"), ["rust_cc"], debug),
                           stdout=subprocess.PIPE, stderr=subprocess.STDOUT, text=True)
        fact = os.path.join(out, "rust_cc.json")
        if r.returncode != 0 or not os.path.exists(fact):
            return False, r.stdout[-6000:]
        shutil.move(fact, dest)
        if "cleaners" in features:
            depcache.save(os.path.join(tmp, "t"), repo, flavor)     # the configuration with every optional dependency
        return True, ""
    finally:
        shutil.rmtree(tmp, ignore_errors=True)


def build_derive_facts(dest, repo=None):
    """Facts for the proc-macro crate rust_cc_derive (its own control flow: C18 R18.2)."""
    repo = repo or REPO
    ensure_driver()
    tmp = _tmp_root()
    try:
        out = os.path.join(tmp, "out")
        os.makedirs(out)
        from . import depcache
        depcache.seed(os.path.join(tmp, "t"), repo, "derive")
        cmd = ["cargo", "+nightly", "check", "--offline", "-p", "rust-cc-derive"]
        r = subprocess.run(cmd, cwd=repo, env=_env(out, os.path.join(tmp, "t"), ["rust_cc_derive"], True),
                           stdout=subprocess.PIPE, stderr=subprocess.STDOUT, text=True)
        fact = os.path.join(out, "rust_cc_derive.json")
        if r.returncode != 0 or not os.path.exists(fact):
            return False, r.stdout[-6000:]
        shutil.move(fact, dest)
        depcache.save(os.path.join(tmp, "t"), repo, "derive")
        return True, ""
    finally:
        shutil.rmtree(tmp, ignore_errors=True)


class Lock:
    def __init__(self, path):
        self.path = path

    def __enter__(self):
        os.makedirs(os.path.dirname(self.path), exist_ok=True)
        self.fh = open(self.path, "w")
        fcntl.flock(self.fh, fcntl.LOCK_EX)
        return self

    def __exit__(self, *a):
        fcntl.flock(self.fh, fcntl.LOCK_UN)
        self.fh.close()


def _prune():
    try:
        ds = [os.path.join(CACHE, d) for d in os.listdir(CACHE) if os.path.isdir(os.path.join(CACHE, d))]
    except FileNotFoundError:
        return
    def mt(d):
        try:
            return os.path.getmtime(d)
        except OSError:          # removed by a concurrent run's prune
            return 0.0
    ds = [d for d in ds if os.path.basename(d) != "deps"]
    ds.sort(key=mt, reverse=True)
    now = time.time()
    for d in ds[8:]:
        # never remove a directory another process may be filling right now
        m = mt(d)
        if m and now - m > 1500:
            shutil.rmtree(d, ignore_errors=True)


def facts_dir(repo=None):
    d = os.path.join(CACHE, tree_hash(repo))
    for _ in range(3):
        try:
            os.makedirs(d, exist_ok=True)
            os.utime(d)
            break
        except OSError:          # a concurrent prune removed it between the two calls
            continue
    return d


def get_lib_facts(configs, repo=None, jobs=None):
    """Return {cfg_name: path} building what is missing (in parallel). Raises on compile failure."""
    from concurrent.futures import ThreadPoolExecutor
    no_cache = os.environ.get("VERIF_NO_CACHE") == "1"
    d = facts_dir(repo)
    res = {}
    todo = []
    with Lock(os.path.join(CACHE, "lock-" + os.path.basename(d))):
        os.makedirs(d, exist_ok=True)
        for (fs, dbg) in configs:
            name = cfg_name(fs, dbg)
            p = os.path.join(d, "lib-" + name.replace("|", "_").replace("+", "_") + ".json")
            res[name] = p
            if no_cache or not os.path.exists(p):
                todo.append((fs, dbg, p))
        if todo:
            jobs = jobs or min(len(todo), max(1, (os.cpu_count() or 4) // 2))
            errs = []

            def work(t):
                fs, dbg, p = t
                ok, log = build_lib_facts(fs, dbg, p + ".tmp", repo)
                if ok:
                    os.replace(p + ".tmp", p)
                else:
                    errs.append((cfg_name(fs, dbg), log))
            with ThreadPoolExecutor(max_workers=jobs) as ex:
                list(ex.map(work, todo))
            if errs:
                raise BuildError(errs)
        _prune()
    return res


def get_derive_facts(repo=None):
    d = facts_dir(repo)
    p = os.path.join(d, "derive.json")
    with Lock(os.path.join(CACHE, "lock-" + os.path.basename(d))):
        os.makedirs(d, exist_ok=True)
        if os.environ.get("VERIF_NO_CACHE") == "1" or not os.path.exists(p):
            ok, log = build_derive_facts(p + ".tmp", repo)
            if not ok:
                raise BuildError([("derive", log)])
            os.replace(p + ".tmp", p)
    return p


class BuildError(Exception):
    def __init__(self, errs):
        self.errs = errs
        super().__init__("; ".join(n for n, _ in errs))
