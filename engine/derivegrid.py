"""Derive grid (C18): generate a probe crate of type definitions using #[derive(Trace, Finalize)], let the *real*
proc-macro expand them (macro expansion is the compiler's job), dump the MIR of the generated impls with ccfacts and
compare the calls found in each generated `trace` with the probe's own field list."""
import itertools
import os
import random
import shutil
import subprocess
import tempfile

from . import build
from .facts import Facts

FIELD_TYPES = ["L", "Cc<L>", "Option<Cc<L>>", "Vec<Cc<L>>", "RefCell<Option<Cc<L>>>", "Box<L>", "(L, Cc<L>)", "[Cc<L>; 2]", "Shadow"]

PRELUDE = """#![allow(dead_code, unused_imports)]
use rust_cc::*;
use std::cell::RefCell;
pub struct L(u8);
unsafe impl Trace for L { fn trace(&self, _: &mut Context<'_>) {} }
impl Finalize for L {}
pub struct NoTrace(u8);
/// a traceable type that also has an *inherent* method called `trace`: generated code must call the trait method
pub struct Shadow(u8);
impl Shadow { pub fn trace<V>(&self, _: V) {} pub fn finalize(&self) {} }
unsafe impl Trace for Shadow { fn trace(&self, _: &mut Context<'_>) {} }
impl Finalize for Shadow {}
"""


class Probe:
    def __init__(self, name, kind, variants, generic=False, delim="()"):
        self.delim = delim            # spelling of the attribute's delimiters: #[rust_cc(ignore)] / #[rust_cc[ignore]] / #[rust_cc{ignore}]
        self.name = name
        self.kind = kind              # 'struct' | 'enum'
        self.variants = variants      # [(vname, style('unit'|'tuple'|'named'), ignored_variant, [(fname, type, ignored)])]
        self.generic = generic

    def source(self):
        g = "<T>" if self.generic == "unbounded" else ("<T: Trace + 'static>" if self.generic else "")
        out = ["#[derive(Trace, Finalize)]"]
        IGN = "#[rust_cc%signore%s] " % (self.delim[0], self.delim[1])
        if self.kind == "struct":
            (_, style, _, fields) = self.variants[0]
            if style == "unit":
                out.append("pub struct %s%s;" % (self.name, g))
            elif style == "tuple":
                out.append("pub struct %s%s(%s);" % (self.name, g, ", ".join((IGN if ig else "") + ty for _, ty, ig in fields)))
            else:
                out.append("pub struct %s%s { %s }" % (self.name, g, ", ".join((IGN if ig else "") + "%s: %s" % (fn, ty) for fn, ty, ig in fields)))
        else:
            vs = []
            for (vn, style, vig, fields) in self.variants:
                pre = IGN if vig else ""
                if style == "unit":
                    vs.append(pre + vn)
                elif style == "tuple":
                    vs.append(pre + "%s(%s)" % (vn, ", ".join((IGN if ig else "") + ty for _, ty, ig in fields)))
                else:
                    vs.append(pre + "%s { %s }" % (vn, ", ".join((IGN if ig else "") + "%s: %s" % (fn, ty) for fn, ty, ig in fields)))
            out.append("pub enum %s%s { %s }" % (self.name, g, ", ".join(vs)))
        return "\n".join(out)

    def expected(self):
        """variant name -> sorted list of traced field names (tuple fields by index)."""
        exp = {}
        for (vn, style, vig, fields) in self.variants:
            if vig:
                exp[vn] = []
            else:
                exp[vn] = sorted(fn for fn, ty, ig in fields if not ig)
        return exp


def _fields(style, types, mask):
    fs = []
    for i, ty in enumerate(types):
        ig = bool(mask >> i & 1)
        fn = str(i) if style == "tuple" else "f%d" % i
        fs.append((fn, "NoTrace" if ig else ty, ig))
    return fs


def generate(tier, seed):
    rnd = random.Random(seed)
    probes = []
    k = 0

    def name():
        nonlocal k
        k += 1
        return "P%d" % k
    # structs: unit, and tuple/named with 0..8 fields; every ignore mask up to 4 fields, sampled above
    probes.append(Probe(name(), "struct", [("S", "unit", False, [])]))
    max_full = 4 if tier == "thorough" else 3
    for style in ("tuple", "named"):
        for n in range(0, 9):
            types = [FIELD_TYPES[(i + n) % len(FIELD_TYPES)] for i in range(n)]
            if n <= max_full:
                masks = range(1 << n)
            else:
                cnt = 6 if tier == "thorough" else 2
                masks = sorted({0, (1 << n) - 1} | {rnd.randrange(1 << n) for _ in range(cnt)})
            for m in masks:
                probes.append(Probe(name(), "struct", [("S", style, False, _fields(style, types, m))]))
    # generic
    probes.append(Probe(name(), "struct", [("S", "named", False, [("f0", "T", False), ("f1", "Cc<T>", False), ("f2", "NoTrace", True)])], generic=True))
    probes.append(Probe(name(), "struct", [("S", "tuple", False, [("0", "Vec<T>", False), ("1", "NoTrace", True), ("2", "Option<Cc<T>>", False)])], generic=True))
    # enums: 1..4 variants of mixed kinds with ignored variants and fields
    styles = ["unit", "tuple", "named"]
    n_enum = 40 if tier == "thorough" else 12
    for e in range(n_enum):
        nv = 1 + e % 4
        vs = []
        for v in range(nv):
            style = styles[(e + v) % 3] if e < 12 else rnd.choice(styles)
            nf = 0 if style == "unit" else 1 + (e + v) % 3
            types = [FIELD_TYPES[(e + v + i) % len(FIELD_TYPES)] for i in range(nf)]
            mask = rnd.randrange(1 << nf) if nf else 0
            vig = (e + v) % 5 == 0 and nv > 1
            fs = _fields(style, types, mask)
            if vig:
                fs = [(fn, "NoTrace", False) for fn, _, _ in fs]   # an ignored variant may hold untraceable data without per-field attributes
            vs.append(("V%d" % v, style, vig, fs))
        probes.append(Probe(name(), "enum", vs, generic=False))
    probes.append(Probe(name(), "enum", [("V0", "tuple", False, [("0", "T", False), ("1", "NoTrace", True)]), ("V1", "unit", False, []), ("V2", "named", True, [("f0", "NoTrace", False)])], generic=True))
    # a type parameter without any bound, used only in ignored positions: neither derived impl may demand anything of it
    probes.append(Probe(name(), "struct", [("S", "named", False, [("f0", "T", True), ("f1", "Cc<L>", False)])], generic="unbounded"))
    probes.append(Probe(name(), "enum", [("V0", "tuple", False, [("0", "Cc<L>", False), ("1", "T", True)]), ("V1", "tuple", True, [("0", "T", False)])], generic="unbounded"))
    # the other two delimiter spellings of the attribute list
    probes.append(Probe(name(), "struct", [("S", "named", False, [("f0", "NoTrace", True), ("f1", "Cc<L>", False)])], delim="[]"))
    probes.append(Probe(name(), "enum", [("V0", "tuple", False, [("0", "Cc<L>", False), ("1", "NoTrace", True)]), ("V1", "tuple", True, [("0", "NoTrace", False)])], delim="{}"))
    return probes


def uses(probes):
    """Monomorphic uses: the derived impls of a probe whose parameter is unbounded must exist for a parameter that implements nothing."""
    out = ["fn _needs_trace<X: Trace>() {}", "fn _needs_finalize<X: Finalize>() {}", "pub fn _uses() {"]
    for p in probes:
        if p.generic == "unbounded":
            out.append("    _needs_trace::<%s<NoTrace>>(); _needs_finalize::<%s<NoTrace>>();" % (p.name, p.name))
    out.append("}")
    return "\n".join(out)


def build_grid(probes, repo=None):
    """Returns (Facts or None, log)."""
    repo = repo or build.REPO
    build.ensure_driver()
    tmp = tempfile.mkdtemp(prefix="ccgrid-")
    try:
        os.makedirs(os.path.join(tmp, "p", "src"))
        with open(os.path.join(tmp, "p", "Cargo.toml"), "w") as fh:
            fh.write('[package]\nname = "ccgrid"\nversion = "0.0.0"\nedition = "2021"\n\n[workspace]\n\n[dependencies]\n'
                     'rust-cc = { path = "%s", default-features = false, features = ["std", "derive", "finalization", "auto-collect"] }\n' % repo)
        if os.path.exists(os.path.join(repo, "Cargo.lock")):
            shutil.copy2(os.path.join(repo, "Cargo.lock"), os.path.join(tmp, "p", "Cargo.lock"))
        with open(os.path.join(tmp, "p", "src", "lib.rs"), "w") as fh:
            fh.write(PRELUDE + "\n" + "\n\n".join(p.source() for p in probes) + "\n\n" + uses(probes) + "\n")
        out = os.path.join(tmp, "out")
        os.makedirs(out)
        from . import depcache
        depcache.seed(os.path.join(tmp, "t"), repo, "grid")
        env = build._env(out, os.path.join(tmp, "t"), ["ccgrid"], True)
        r = subprocess.run(["cargo", "+nightly", "check", "--offline"], cwd=os.path.join(tmp, "p"), env=env, stdout=subprocess.PIPE, stderr=subprocess.STDOUT, text=True)
        fact = os.path.join(out, "ccgrid.json")
        if r.returncode != 0 or not os.path.exists(fact):
            return None, r.stdout[-4000:]
        depcache.save(os.path.join(tmp, "t"), repo, "grid")
        return Facts(fact), ""
    finally:
        shutil.rmtree(tmp, ignore_errors=True)
