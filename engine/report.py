"""Collects rule instances, decides exit status, writes evidence and violation files."""
import json
import os
import time

VERIF = os.path.dirname(os.path.dirname(os.path.abspath(__file__)))
EVID = os.environ.get("VERIF_EVIDENCE_DIR") or os.path.join(VERIF, "evidence")
KNOWN = os.path.join(VERIF, "known_findings.json")


class Report:
    def __init__(self, prop, tier, seed=0):
        self.prop = prop
        self.tier = tier
        self.seed = seed
        self.t0 = time.time()
        self.instances = []     # dicts: rule, key, cfg, ok, detail, where, nontrivial
        self.floors = []        # (rule, cfg, expected, got)
        self.assumptions = []
        self.configs = []
        self.notes = {}
        self.rule_docs = {}

    # ---- used by rules -------------------------------------------------------------------
    def inst(self, rule, key, ok, detail="", where="", cfg="", nontrivial=True, path=None):
        self.instances.append({"rule": rule, "key": key, "cfg": cfg, "ok": bool(ok), "detail": detail,
                               "where": where, "nontrivial": nontrivial, "path": path})
        return ok

    def floor(self, rule, cfg, expected, got=None):
        if got is None:
            got = sum(1 for i in self.instances if i["rule"] == rule and i["cfg"] == cfg)
        self.floors.append((rule, cfg, expected, got))

    def assume(self, text):
        if text not in self.assumptions:
            self.assumptions.append(text)

    def doc(self, rule, text):
        self.rule_docs[rule] = text

    def merge(self, other_dict):
        self.instances.extend(other_dict["instances"])
        self.floors.extend([tuple(x) for x in other_dict["floors"]])
        for a in other_dict["assumptions"]:
            self.assume(a)
        self.rule_docs.update(other_dict["rule_docs"])
        self.notes.update(other_dict.get("notes", {}))

    def to_dict(self):
        return {"instances": self.instances, "floors": self.floors, "assumptions": self.assumptions,
                "rule_docs": self.rule_docs, "notes": self.notes}

    # ---- finishing -----------------------------------------------------------------------
    def finish(self, level, explanation, trusted_base=None, checker_cmd=None, extra_cov=None):
        os.makedirs(EVID, exist_ok=True)
        vdir = os.path.join(EVID, "violations")
        os.makedirs(vdir, exist_ok=True)
        for f in os.listdir(vdir):
            if f.startswith(self.prop + "-"):
                os.remove(os.path.join(vdir, f))
        known = {"findings": [], "fixed": []}
        if os.path.exists(KNOWN):
            with open(KNOWN) as fh:
                known = json.load(fh)
        known_keys = {(k["property"], k["rule"], k["key"]): k for k in known.get("findings", [])}

        # floors -> pseudo-instances
        for (rule, cfg, expected, got) in self.floors:
            if got < expected:
                self.instances.append({"rule": rule + "/floor", "key": "floor:%s" % rule, "cfg": cfg, "ok": False,
                                       "detail": "rule evaluated %d instance(s) in configuration %s, fewer than the %d confirmed by hand: the rule may be matching nothing (fail-closed)" % (got, cfg, expected),
                                       "where": "", "nontrivial": False, "path": None})

        # group violations by config-independent key
        viol = {}
        for i in self.instances:
            if not i["ok"]:
                k = (i["rule"], i["key"])
                viol.setdefault(k, []).append(i)
        printed = []
        n_viol = 0
        kf_lines = []
        vi = 0
        for (rule, key), items in sorted(viol.items()):
            kk = (self.prop, rule, key)
            if kk in known_keys:
                kf_lines.append("KNOWN-FINDING: property=%s %s" % (self.prop, known_keys[kk]["what"]))
                continue
            n_viol += 1
            vi += 1
            path = os.path.join(vdir, "%s-%d.json" % (self.prop, vi))
            with open(path, "w") as fh:
                json.dump({"property": self.prop, "rule": rule, "key": key,
                           "configs": sorted({i["cfg"] for i in items}),
                           "where": items[0]["where"], "detail": items[0]["detail"], "path": items[0].get("path"),
                           "rule_doc": self.rule_docs.get(rule.split("/")[0], "")}, fh, indent=1)
            printed.append((rule, key, items[0], path))

        # coverage numbers (measured)
        evaluations = len(self.instances)
        distinct = {(i["rule"], i["key"]) for i in self.instances if i["nontrivial"]}
        per_rule = {}
        for i in self.instances:
            r = per_rule.setdefault(i["rule"], {"instances": 0, "keys": set(), "failed": 0})
            r["instances"] += 1
            r["keys"].add(i["key"])
            if not i["ok"]:
                r["failed"] += 1
        samples = []
        seen_rules = set()
        for i in self.instances:
            if i["rule"] not in seen_rules and i["nontrivial"]:
                seen_rules.add(i["rule"])
                samples.append({"rule": i["rule"], "key": i["key"], "cfg": i["cfg"], "where": i["where"], "verdict": "ok" if i["ok"] else "VIOLATED", "detail": i["detail"][:600]})
        cov = {
            "explanation": explanation,
            "evaluations": evaluations,
            "distinct_nontrivial": len(distinct),
            "rule": "one evaluation = one rule instance (rule x site/path/obligation x configuration) decided on the facts extracted from /repo's current tree; distinct = distinct (rule, configuration-independent site key) whose verdict needed a guard/path/ordering/provenance argument",
            "samples": samples[:40],
            "configurations": self.configs,
            "per_rule": {r: {"instances": v["instances"], "distinct_keys": len(v["keys"]), "failed": v["failed"], "doc": self.rule_docs.get(r, "")} for r, v in sorted(per_rule.items())},
            "floors": [{"rule": r, "cfg": c, "floor": e, "got": g} for (r, c, e, g) in self.floors],
            "exhaustive": True,
        }
        if level == "proof":
            cov["obligations"] = evaluations
            cov["discharged"] = sum(1 for i in self.instances if i["ok"])
            cov["checker_cmd"] = checker_cmd or ("./vf check %s --tier %s" % (self.prop, self.tier))
            cov["trusted_base"] = trusted_base or []
        if extra_cov:
            cov.update(extra_cov)
        if self.notes:
            cov["notes"] = self.notes
        ev = {
            "property_id": self.prop,
            "tier": self.tier,
            "seed": self.seed,
            "level": level,
            "coverage": cov,
            "assumptions": self.assumptions,
            "wall_s": round(time.time() - self.t0, 2),
            "violations": n_viol,
        }
        with open(os.path.join(EVID, self.prop + ".json"), "w") as fh:
            json.dump(ev, fh, indent=1)

        for l in kf_lines:
            print(l)
        for (rule, key, it, path) in printed:
            print("VIOLATION property=%s replay=%s" % (self.prop, path))
            print("  rule=%s key=%s" % (rule, key))
            if it["where"]:
                print("  at %s" % it["where"])
            print("  %s" % it["detail"][:1500])
        print("%s [%s]: %d rule instances over %d configuration(s), %d distinct; %d violation(s), %d known finding(s); %.1fs" % (
            self.prop, self.tier, evaluations, len(self.configs), len(distinct), n_viol, len(kf_lines), time.time() - self.t0))
        return 1 if n_viol else 0
