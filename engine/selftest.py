"""vf selftest: apply each mutant to a scratch copy of /repo (outside /repo and /verif), confirm it still
compiles (the fact build does that), run the affected check and require the expected rule to fire.
Not a registered check: it tests the checker, both ways (silence on the unmodified tree is `vf all`)."""
import json
import os
import re
import shutil
import subprocess
import sys
import tempfile
from concurrent.futures import ThreadPoolExecutor

VERIF = os.path.dirname(os.path.dirname(os.path.abspath(__file__)))


def load_mutants():
    sys.path.insert(0, VERIF)
    from mutants import table
    return table.MUTANTS


def scratch_copy():
    t = tempfile.mkdtemp(prefix="vfmut-")
    dst = os.path.join(t, "repo")
    os.makedirs(dst)
    src = os.environ.get("VERIF_SELFTEST_SRC", "/repo")   # development only: a pristine copy while /repo is temporarily patched
    files = subprocess.check_output(["git", "-C", src, "ls-files"], text=True).split("\n") + ["Cargo.lock"]
    for f in files:
        if not f:
            continue
        s = os.path.join(src, f)
        d = os.path.join(dst, f)
        os.makedirs(os.path.dirname(d), exist_ok=True)
        if os.path.exists(s):
            shutil.copy2(s, d)
    return t, dst


def apply(m, dst):
    if "patch" in m:
        r = subprocess.run(["patch", "-p1", "-s"] + (["-R"] if m.get("reverse") else []) + ["-i", os.path.join(VERIF, m["patch"])], cwd=dst, stdout=subprocess.PIPE, stderr=subprocess.STDOUT, text=True)
        if r.returncode != 0:
            return "patch failed: " + r.stdout
        return None
    for (f, old, new) in m["edits"]:
        p = os.path.join(dst, f)
        s = open(p).read()
        if s.count(old) != m.get("count", 1):
            return "edit anchor found %d times in %s (expected %d): %r" % (s.count(old), f, m.get("count", 1), old[:60])
        s = s.replace(old, new)
        open(p, "w").write(s)
    return None


def run_one(m):
    t, dst = scratch_copy()
    try:
        err = apply(m, dst)
        if err:
            return m["name"], "BROKEN-MUTANT", err
        env = dict(os.environ)
        env["VERIF_REPO"] = dst
        env["VERIF_EVIDENCE_DIR"] = os.path.join(t, "evidence")
        outs = []
        fired = False
        for prop in m["props"]:
            r = subprocess.run([os.path.join(VERIF, "vf"), "check", prop, "--tier", m.get("tier", "quick")], cwd=VERIF, env=env, stdout=subprocess.PIPE, stderr=subprocess.STDOUT, text=True)
            out = r.stdout
            outs.append(out)
            if "current tree does not compile in configuration" in out or "rust_cc_derive does not compile" in out:
                return m["name"], "NOCOMPILE", out[-1500:]
            rules = re.findall(r"rule=(\S+)", out)
            if r.returncode == 1 and any(any(exp in ru for exp in m["expect"]) for ru in rules):
                fired = True
            elif r.returncode == 1 and rules and not m.get("strict"):
                # fired, but through a different rule than expected: still a detection; report which
                fired = True
                outs.append("(detected through %s, expected %s)" % (sorted(set(rules)), m["expect"]))
        return m["name"], "CAUGHT" if fired else "MISSED", "\n".join(o[-600:] for o in outs)
    finally:
        shutil.rmtree(t, ignore_errors=True)


def run_benign(m):
    """All checks must stay silent on a behaviour-preserving edit."""
    t, dst = scratch_copy()
    try:
        err = apply(m, dst)
        if err:
            return m["name"], "BROKEN-MUTANT", err
        env = dict(os.environ)
        env["VERIF_REPO"] = dst
        env["VERIF_EVIDENCE_DIR"] = os.path.join(t, "evidence")
        r = subprocess.run([os.path.join(VERIF, "vf"), "all", "--tier", os.environ.get("VF_SELFTEST_TIER", "quick")], cwd=VERIF, env=env, stdout=subprocess.PIPE, stderr=subprocess.STDOUT, text=True)
        if "does not compile in configuration" in r.stdout:
            return m["name"], "NOCOMPILE", r.stdout[-1500:]
        if r.returncode != 0 or "VIOLATION" in r.stdout:
            lines = [l for l in r.stdout.splitlines() if l.startswith(("VIOLATION", "  rule="))]
            if not lines:
                lines = ["(exit %d without a VIOLATION line; last output:)" % r.returncode] + r.stdout.splitlines()[-25:]
            return m["name"], "FALSE-ALARM", "\n".join(lines[:40])
        return m["name"], "SILENT", ""
    finally:
        shutil.rmtree(t, ignore_errors=True)


def main_benign(argv):
    sys.path.insert(0, VERIF)
    from mutants import benign
    ms = benign.BENIGN
    if argv:
        ms = [m for m in ms if any(a in m["name"] for a in argv)]
    jobs = int(os.environ.get("VF_JOBS", "3"))
    bad = 0
    with ThreadPoolExecutor(max_workers=jobs) as ex:
        for name, status, detail in ex.map(run_benign, ms):
            print("%-14s %s" % (status, name))
            if status != "SILENT":
                bad += 1
                print("    " + detail.replace("\n", "\n    ")[-2500:])
    print("benign: %d edits, %d not silent" % (len(ms), bad))
    return 1 if bad else 0


def main(argv):
    if argv and argv[0] == "--benign":
        return main_benign(argv[1:])
    muts = load_mutants()
    if argv:
        muts = [m for m in muts if any(a in m["name"] for a in argv)]
    jobs = int(os.environ.get("VF_JOBS", "4"))
    res = []
    with ThreadPoolExecutor(max_workers=jobs) as ex:
        for name, status, detail in ex.map(run_one, muts):
            print("%-14s %s" % (status, name))
            if status != "CAUGHT":
                print("    " + detail.replace("\n", "\n    ")[-1200:])
            elif "(detected through" in detail:
                print("    " + detail[detail.index("(detected through"):][:300])
            res.append((name, status))
    n_bad = sum(1 for _, s in res if s != "CAUGHT")
    print("selftest: %d mutants, %d caught, %d not" % (len(res), len(res) - n_bad, n_bad))
    return 1 if n_bad else 0
