"""vf check / vf all: build facts for /repo's current tree, run the rule modules, write evidence."""
import importlib
import os
import sys
import traceback
from concurrent.futures import ProcessPoolExecutor

from . import build
from .facts import Facts
from .graph import Program
from .report import Report

PROPS = ["C%02d" % i for i in range(1, 21)]

# Rules of other properties that each property also relies on: a change that breaks the property through
# one of them must be reported by *this* property's check too (not only by the owner's).
SHARED = {
    "C01": {"c08": ["R8.1"], "c07": ["R7.2", "R7.3", "R7.8"], "c16": ["R16.2"], "c03": ["R3.3"], "c12": ["R12.3", "R12.7"]},
    "C02": {"c06": ["R6.1", "R6.2"], "c07": ["R7.2"], "c11": ["R11.5"], "c01": ["R1.5", "R1.6", "R1.3"], "c05": ["R5.3"]},
    "C03": {"c01": ["R1.1", "R1.2"], "c13": ["R13.2"], "c07": ["R7.5", "R7.8", "R7.7"], "c09": ["R9.4"]},
    "C04": {"c01": ["R1.9", "R1.2"], "c07": ["R7.2", "R7.3"], "c16": ["R16.2", "R16.4"], "c02": ["R2.1"]},
    "C05": {"c07": ["R7.1"], "c12": ["R12.2"], "c01": ["R1.3", "R1.4"], "c06": ["R6.4"], "c02": ["R2.4"], "c16": ["R16.2", "R16.3", "R16.5"]},
    "C06": {"c02": ["R2.1", "R2.4", "R2.5"], "c05": ["R5.1", "R5.2", "R5.3", "R5.5"], "c01": ["R1.6"], "c08": ["R8.1"], "c16": ["R16.3"], "c12": ["R12.7"]},
    "C07": {"c01": ["R1.2", "R1.6"], "c03": ["R3.2", "R3.3"], "c12": ["R12.2"], "c14": ["R14.1"]},
    "C08": {"c16": ["R16.2", "R16.3", "R16.5"], "c03": ["R3.5", "R3.2"], "c07": ["R7.4"], "c12": ["R12.2", "R12.7"], "c13": ["R13.2"]},
    "C09": {"c16": ["R16.2", "R16.3", "R16.4", "R16.5"], "c03": ["R3.2", "R3.5"], "c13": ["R13.3"], "c08": ["R8.1"], "c01": ["R1.9"]},
    "C10": {"c17": ["R17.1"], "c08": ["R8.1"], "c04": ["R4.2"], "c12": ["R12.2"], "c01": ["R1.2"], "c03": ["R3.3"], "c16": ["R16.1", "R16.2", "R16.3"]},
    "C11": {"c02": ["R2.5"], "c03": ["R3.1"], "c01": ["R1.10", "R1.2"]},
    "C12": {"c07": ["R7.1"], "c05": ["R5.5"]},
    "C13": {"c03": ["R3.1", "R3.2", "R3.4", "R3.5"], "c12": ["R12.4"], "c08": ["R8.3"], "c09": ["R9.2"], "c16": ["R16.2"], "c07": ["R7.1"]},
    "C14": {"c07": ["R7.5", "R7.7"], "c03": ["R3.1", "R3.6"], "c08": ["R8.1"], "c09": ["R9.4"], "c16": ["R16.2"]},
    "C15": {"c11": ["R11.1", "R11.3"], "c12": ["R12.3"]},
    "C16": {"c01": ["R1.9"], "c09": ["R9.1"], "c05": ["R5.3"]},
    "C17": {"c08": ["R8.4"], "c10": ["R10.3"]},
    "C19": {"c07": ["R7.1"]},
    "C20": {"c03": ["R3.1"], "c12": ["R12.6"]},
}


def _worker(args):
    prop, cfgname, path = args
    from rules import common
    R = Report(prop, "w")
    try:
        F = Facts(path)
        P = Program(F)
        mod = importlib.import_module("rules." + prop.lower())
        try:
            mod.check(R, F, P, cfgname)
            # rules owned by other properties that this property depends on as well (same code, same facts)
            shared = SHARED.get(prop, {})
            for other, wanted in shared.items():
                om = importlib.import_module("rules." + other)
                R2 = Report(prop, "w")
                om.check(R2, F, P, cfgname)
                keep = [i for i in R2.instances if i["rule"].split("/")[0] in wanted]
                R.instances.extend(keep)
                for k_, v_ in R2.rule_docs.items():
                    if k_ in wanted:
                        R.rule_docs.setdefault(k_, v_ + "  [shared rule, owned by %s]" % other.upper())
                R.floors.extend([fl for fl in R2.floors if fl[0].split("/")[0] in wanted])
                for a_ in R2.assumptions:
                    R.assume(a_)
        except common.AnchorMissing as e:
            R.inst("anchor-missing", "anchor:" + e.name, False,
                   "anchor function `%s` not found in configuration %s: it was renamed or removed. If the rename is benign, update rules/common.py (fail-closed: a rule that matches nothing would pass forever)." % (e.name, cfgname),
                   cfg=cfgname, nontrivial=False)
    except Exception:
        R.inst("analysis-error", "error:" + cfgname, False, "the analysis raised an exception on this tree (fail-closed):\n" + traceback.format_exc()[-1800:], cfg=cfgname, nontrivial=False)
    return R.to_dict()


def run_prop(prop, tier, jobs=None):
    seed = int(os.environ.get("VERIF_SEED", "0") or 0)
    R = Report(prop, tier, seed)
    mod = importlib.import_module("rules." + prop.lower())
    cfgs = build.THOROUGH_CONFIGS if tier == "thorough" else build.QUICK_CONFIGS
    want = getattr(mod, "CONFIG_FILTER", None)
    if want:
        cfgs = [c for c in cfgs if want(c)]
    try:
        paths = build.get_lib_facts(cfgs)
    except build.BuildError as e:
        for name, log in e.errs:
            R.inst("build", "build:" + name, False, "/repo's current tree does not compile in configuration %s:\n%s" % (name, log[-1500:]), cfg=name, nontrivial=False)
        return R.finish(getattr(mod, "LEVEL", "other"), getattr(mod, "EXPLANATION", ""))
    R.configs = sorted(paths)
    work = [(prop, name, p) for name, p in sorted(paths.items())]
    if len(work) > 3:
        with ProcessPoolExecutor(max_workers=jobs or min(12, os.cpu_count() or 4)) as ex:
            results = list(ex.map(_worker, work))
    else:
        results = [_worker(w) for w in work]
    for d in results:
        R.merge(d)
    # once-per-run parts (witnesses, derive grid, derive-crate control flow)
    glob = getattr(mod, "check_global", None)
    if glob:
        try:
            glob(R, tier, seed)
        except Exception:
            R.inst("analysis-error", "error:global", False, "the global part of the check raised an exception (fail-closed):\n" + traceback.format_exc()[-1800:], nontrivial=False)
    return R.finish(getattr(mod, "LEVEL", "other"), getattr(mod, "EXPLANATION", ""),
                    trusted_base=getattr(mod, "TRUSTED_BASE", None))


def run_prop_retry(prop, tier):
    """run_prop; an exception of the infrastructure itself (cache directory removed by a concurrent run, ...) is retried once."""
    import time
    for attempt in (1, 2):
        try:
            return run_prop(prop, tier)
        except Exception:
            if attempt == 2:
                traceback.print_exc()
                print("%s: the checker itself failed twice (not a verdict on /repo)" % prop)
                return 2
            time.sleep(2)


def main(argv):
    tier = os.environ.get("VERIF_TIER", "quick")
    if "--tier" in argv:
        i = argv.index("--tier")
        tier = argv[i + 1]
        del argv[i:i + 2]
    if argv[0] == "check":
        prop = argv[1].upper()
        if prop not in PROPS:
            print("unknown property", prop)
            return 2
        return run_prop_retry(prop, tier)
    rc = 0
    for p in PROPS:
        try:
            importlib.import_module("rules." + p.lower())
        except ModuleNotFoundError:
            continue
        rc |= run_prop_retry(p, tier)
    return rc
