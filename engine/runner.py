"""vf check / vf all: build facts for /repo's current tree, run the rule modules, write evidence."""
import importlib
import os
import sys
import traceback
from concurrent.futures import ProcessPoolExecutor

from . import build
from .facts import Facts
from .graph import Program
from .report import Report

PROPS = ["C%02d" % i for i in range(1, 21)]


def _worker(args):
    prop, cfgname, path = args
    from rules import common
    R = Report(prop, "w")
    try:
        F = Facts(path)
        P = Program(F)
        mod = importlib.import_module("rules." + prop.lower())
        try:
            mod.check(R, F, P, cfgname)
        except common.AnchorMissing as e:
            R.inst("anchor-missing", "anchor:" + e.name, False,
                   "anchor function `%s` not found in configuration %s: it was renamed or removed. If the rename is benign, update rules/common.py (fail-closed: a rule that matches nothing would pass forever)." % (e.name, cfgname),
                   cfg=cfgname, nontrivial=False)
    except Exception:
        R.inst("analysis-error", "error:" + cfgname, False, "the analysis raised an exception on this tree (fail-closed):\n" + traceback.format_exc()[-1800:], cfg=cfgname, nontrivial=False)
    return R.to_dict()


def run_prop(prop, tier, jobs=None):
    seed = int(os.environ.get("VERIF_SEED", "0") or 0)
    R = Report(prop, tier, seed)
    mod = importlib.import_module("rules." + prop.lower())
    cfgs = build.THOROUGH_CONFIGS if tier == "thorough" else build.QUICK_CONFIGS
    want = getattr(mod, "CONFIG_FILTER", None)
    if want:
        cfgs = [c for c in cfgs if want(c)]
    try:
        paths = build.get_lib_facts(cfgs)
    except build.BuildError as e:
        for name, log in e.errs:
            R.inst("build", "build:" + name, False, "/repo's current tree does not compile in configuration %s:\n%s" % (name, log[-1500:]), cfg=name, nontrivial=False)
        return R.finish(getattr(mod, "LEVEL", "other"), getattr(mod, "EXPLANATION", ""))
    R.configs = sorted(paths)
    work = [(prop, name, p) for name, p in sorted(paths.items())]
    if len(work) > 3:
        with ProcessPoolExecutor(max_workers=jobs or min(12, os.cpu_count() or 4)) as ex:
            results = list(ex.map(_worker, work))
    else:
        results = [_worker(w) for w in work]
    for d in results:
        R.merge(d)
    # once-per-run parts (witnesses, derive grid, derive-crate control flow)
    glob = getattr(mod, "check_global", None)
    if glob:
        try:
            glob(R, tier, seed)
        except Exception:
            R.inst("analysis-error", "error:global", False, "the global part of the check raised an exception (fail-closed):\n" + traceback.format_exc()[-1800:], nontrivial=False)
    return R.finish(getattr(mod, "LEVEL", "other"), getattr(mod, "EXPLANATION", ""),
                    trusted_base=getattr(mod, "TRUSTED_BASE", None))


def main(argv):
    tier = os.environ.get("VERIF_TIER", "quick")
    if "--tier" in argv:
        i = argv.index("--tier")
        tier = argv[i + 1]
        del argv[i:i + 2]
    if argv[0] == "check":
        prop = argv[1].upper()
        if prop not in PROPS:
            print("unknown property", prop)
            return 2
        return run_prop(prop, tier)
    rc = 0
    for p in PROPS:
        try:
            importlib.import_module("rules." + p.lower())
        except ModuleNotFoundError:
            continue
        rc |= run_prop(p, tier)
    return rc
