"""Analysis core: call classification, user-callback sites, may-U fixpoint, inlined supergraph,
symbolic value resolution (provenance), dominators, path enumeration, branch literals.

Everything here works on the JSON facts only (engine.facts)."""
from collections import defaultdict, deque

from .facts import norm_path, pp_term, pp_stmt

# --------------------------------------------------------------------------------------------
# tables (DESIGN Appendix C)

# std functions that are the identity on "which object does this pointer/reference designate"
TRANSPARENT = [
    "std::ptr::NonNull::<T>::as_ref", "std::ptr::NonNull::<T>::as_mut", "std::ptr::NonNull::<T>::as_ptr",
    "std::ptr::NonNull::<T>::cast", "std::ptr::NonNull::<T>::new_unchecked", "std::ptr::NonNull::<T>::from_ref",
    "std::ptr::NonNull::<T>::from_mut",
    "std::cell::UnsafeCell::<T>::get", "std::cell::UnsafeCell::<T>::new", "std::cell::UnsafeCell::<T>::get_mut",
    "std::mem::ManuallyDrop::<T>::new", "std::mem::ManuallyDrop::<T>::into_inner",
    "<std::mem::ManuallyDrop<T> as std::ops::Deref>::deref", "<std::mem::ManuallyDrop<T> as std::ops::DerefMut>::deref_mut",
    "std::convert::Into::into", "std::convert::From::from", "<T as std::convert::From<T>>::from",
    "<T as std::convert::Into<U>>::into",
    "std::convert::AsRef::as_ref", "std::borrow::Borrow::borrow",
    "std::ptr::mut_ptr::<impl *mut T>::cast", "std::ptr::const_ptr::<impl *const T>::cast",
    "std::ptr::mut_ptr::<impl *mut T>::cast_const", "std::ptr::const_ptr::<impl *const T>::cast_mut",
    "std::clone::Clone::clone#copy",
    "std::mem::MaybeUninit::<T>::as_mut_ptr", "std::mem::MaybeUninit::<T>::as_ptr",
    "std::mem::MaybeUninit::<T>::assume_init_ref", "std::mem::MaybeUninit::<T>::assume_init_mut",
    "<std::cell::RefMut<'_, T> as std::ops::Deref>::deref", "<std::cell::RefMut<'_, T> as std::ops::DerefMut>::deref_mut",
    "<std::cell::Ref<'_, T> as std::ops::Deref>::deref",
    "<std::boxed::Box<T, A> as std::ops::Deref>::deref",
    "<std::panic::AssertUnwindSafe<T> as std::ops::Deref>::deref",
]
TRANSPARENT = set(TRANSPARENT)

# closure-argument multiplicity of higher-order callees: (min, max) with max None = many
HIGHER_ORDER = {
    "state::state": (1, 1),
    "state::try_state": (0, 1),
    "config::config": (0, 1),
    "std::thread::LocalKey::<T>::try_with": (0, 1),
    "std::thread::LocalKey::<T>::with": (1, 1),
    "std::iter::Iterator::for_each": (0, None),
    "std::iter::Iterator::fold": (0, None),
    "std::iter::Iterator::any": (0, None),
    "std::iter::Iterator::all": (0, None),
    "std::option::Option::<T>::map_or": (0, 1),
    "std::option::Option::<T>::map": (0, 1),
    "std::option::Option::<T>::get_or_insert_with": (0, 1),
    "std::option::Option::<T>::unwrap_or_else": (0, 1),
    "std::result::Result::<T, E>::map": (0, 1),
    "std::result::Result::<T, E>::unwrap_or_else": (0, 1),
    "std::result::Result::<T, E>::or": (0, 0),
    # further std combinators (each closure is called at most once; which of two is decided by the value)
    "std::result::Result::<T, E>::map_err": (0, 1),
    "std::result::Result::<T, E>::and_then": (0, 1),
    "std::result::Result::<T, E>::or_else": (0, 1),
    "std::result::Result::<T, E>::map_or": (0, 1),
    "std::result::Result::<T, E>::map_or_else": (0, 1),
    "std::result::Result::<T, E>::is_ok_and": (0, 1),
    "std::result::Result::<T, E>::is_err_and": (0, 1),
    "std::result::Result::<T, E>::inspect": (0, 1),
    "std::result::Result::<T, E>::inspect_err": (0, 1),
    "std::option::Option::<T>::and_then": (0, 1),
    "std::option::Option::<T>::or_else": (0, 1),
    "std::option::Option::<T>::map_or_else": (0, 1),
    "std::option::Option::<T>::ok_or_else": (0, 1),
    "std::option::Option::<T>::filter": (0, 1),
    "std::option::Option::<T>::is_some_and": (0, 1),
    "std::option::Option::<T>::is_none_or": (0, 1),
    "std::option::Option::<T>::inspect": (0, 1),
    "std::option::Option::<T>::get_or_insert_with": (0, 1),
    "std::bool::<impl bool>::then": (0, 1),
    "std::iter::Iterator::try_for_each": (0, None),
    "std::iter::Iterator::try_fold": (0, None),
    "std::iter::Iterator::find": (0, None),
    "std::iter::Iterator::position": (0, None),
    "std::iter::Iterator::find_map": (0, None),
}
# crate wrappers whose generic `f` call is bound through HIGHER_ORDER (not user-callback sites)
WRAPPERS = ("state::state", "state::try_state", "config::config")

DIVERGING = (
    "std::panicking::panic", "std::panicking::panic_fmt", "std::panicking::assert_failed",
    "std::panicking::panic_nounwind", "std::alloc::handle_alloc_error", "std::panicking::panic_explicit",
    "std::panicking::panic_display", "std::rt::panic_fmt", "std::rt::begin_panic",
    "std::option::expect_failed", "std::result::unwrap_failed", "std::option::unwrap_failed",
    "std::panicking::panic_null_pointer_dereference", "std::panicking::panic_misaligned_pointer_dereference",
)

U_KINDS = ("TRACE", "FINALIZE", "DROP", "CLOSURE", "ACTION")


def is_diverging_path(p):
    return p.startswith(DIVERGING) or p.startswith("core::panicking") or p.startswith("std::panicking")


# --------------------------------------------------------------------------------------------


class Program:
    """Whole-crate view: call classification, U-sites, may-U sets."""

    def __init__(self, facts):
        self.F = facts
        self.fns = facts.fns
        self.impl_methods = defaultdict(list)  # (trait npath, method name) -> [Fn]
        for f in self.fns.values():
            if f.impl_of and f.impl_of.get("trait"):
                self.impl_methods[(norm_path(f.impl_of["trait"]), f.npath.rsplit("::", 1)[-1])].append(f)
        self.adt_dtor = {}  # dtor fn id -> adt path
        for a in facts.adts.values():
            if a["destructor"]:
                self.adt_dtor[a["destructor"]] = a["path"]
        self._classify_cache = {}
        self.usites = []      # (fn, bb, kind, descr)
        self.mayU = {}        # fn id -> set(kinds)
        self._compute_mayU()

    # ---- call classification -----------------------------------------------------------
    def callee_npath(self, c):
        if c.get("indirect"):
            return "<indirect>"
        p = norm_path(c["path"])
        if p in STD_ALIASES:
            return STD_ALIASES[p]
        rp = c.get("res_path")
        if rp and norm_path(rp) in STD_ALIASES:
            return STD_ALIASES[norm_path(rp)]
        return p

    def classify(self, fn, bb):
        """Return dict describing the terminator of fn.blocks[bb] if it is a call or drop."""
        key = (fn.id, bb)
        if key in self._classify_cache:
            return self._classify_cache[key]
        t = fn.blocks[bb]["term"]
        r = None
        if t["k"] == "call":
            r = self._classify_call(fn, bb, t)
        elif t["k"] == "drop":
            r = self._classify_drop(fn, bb, t)
        self._classify_cache[key] = r
        return r

    def _in_wrapper(self, fn):
        p = fn.npath
        if any(p == w or p.startswith(w + "::{closure") for w in WRAPPERS):
            return True
        return self._private_higher_order(fn)

    def _private_higher_order(self, fn):
        """A crate-private generic helper taking a closure (`fn step(&self, f: impl FnOnce(u16) -> u16)`) that is only ever
        called with closures written in this crate: a call of its closure parameter runs crate code, not a user callback
        (the closures' own effects are attributed at the call sites that pass them)."""
        c = self.__dict__.setdefault("_pho", {})
        if fn.id in c:
            return c[fn.id]
        c[fn.id] = False
        ok = fn.kind != "closure" and fn.vis != "pub" and not (fn.impl_of and fn.impl_of.get("trait"))
        n_calls = 0
        if ok:
            for g in self.fns.values():
                for b in g.blocks:
                    t = b["term"]
                    if t["k"] == "call" and not t["callee"].get("indirect") and t["callee"].get("id") == fn.id:
                        n_calls += 1
                        if not [x for x in t["callee"].get("closure_args", []) if x in self.fns]:
                            ok = False
        c[fn.id] = bool(ok and n_calls)
        return c[fn.id]

    def _classify_call(self, fn, bb, t):
        c = t["callee"]
        info = {"k": "call", "fn": fn, "bb": bb, "term": t, "npath": self.callee_npath(c), "targets": [], "ukind": None,
                "closures": [], "diverges": t["target"] is None, "exp": t.get("exp", [])}
        if c.get("indirect"):
            info["kind"] = "indirect"
            # calling a local of closure/generic type: FnOnce on a type parameter is spelled as a call_once item normally;
            # an indirect operand is a fn pointer
            return info
        np = info["npath"]
        res = c.get("res")
        info["closures"] = [x for x in c.get("closure_args", []) if x in self.fns]
        tr = norm_path(c["trait"]) if c.get("trait") else None
        name = c["name"]
        # user-callback sites
        if res in ("unresolved", "error") or (res == "virtual"):
            if tr and tr.endswith("trace::Trace") and name == "trace":
                if res == "virtual" or c.get("self_kind") in ("param", "dyn", "alias"):
                    if res == "virtual":
                        # dyn InternalTrace -> crate impls of Trace for CcBox<T>
                        cands = [f for f in self.impl_methods.get((tr, name), []) if "CcBox<" in (f.impl_of or {}).get("self_ty", "")]
                        info["kind"] = "virtual"
                        info["targets"] = cands
                        return info
                    info["kind"] = "usite"
                    info["ukind"] = "TRACE"
                    return info
            if tr and tr.endswith("trace::Finalize") and name == "finalize":
                info["kind"] = "usite"
                info["ukind"] = "FINALIZE"
                return info
            if res == "virtual" and tr:
                cands = list(self.impl_methods.get((tr, name), []))
                info["kind"] = "virtual"
                info["targets"] = cands
                return info
            if np.startswith("std::ptr::drop_in_place"):
                info["kind"] = "usite"
                info["ukind"] = "DROP"
                return info
            if tr and tr.startswith("std::ops::Fn") and name in ("call_once", "call_mut", "call"):
                if self._in_wrapper(fn):
                    info["kind"] = "wrapper_f"
                    return info
                info["kind"] = "usite"
                info["ukind"] = "CLOSURE"
                return info
            info["kind"] = "usite"
            info["ukind"] = "OTHER"   # e.g. T::default(), T::eq(..) in forwarding impls
            return info
        if tr and tr.startswith("std::ops::Fn") and name in ("call_once", "call_mut", "call"):
            st = c.get("self_ty", "")
            if "dyn " in st:
                info["kind"] = "usite"
                info["ukind"] = "ACTION"
                return info
            if c.get("self_closure") and c["self_closure"] in self.fns:
                info["kind"] = "crate"
                info["targets"] = [self.fns[c["self_closure"]]]
                info["direct_closure"] = True
                return info
        if np.startswith("std::ptr::drop_in_place") and c.get("res") == "drop_glue":
            # drop glue of a concrete/partially generic type
            info["kind"] = "dropglue"
            info["dtors"] = c.get("glue_dtors", [])
            info["has_param"] = c.get("glue_has_param", False)
            info["glue_ty"] = c.get("glue_ty")
            if info["has_param"]:
                info["ukind"] = "DROP"
            return info
        rid = c.get("res_id")
        if rid in self.fns:
            info["kind"] = "crate"
            info["targets"] = [self.fns[rid]]
            info["npath"] = self.fns[rid].npath
            return info
        if c.get("id") in self.fns:
            info["kind"] = "crate"
            info["targets"] = [self.fns[c["id"]]]
            return info
        info["kind"] = "std"
        if c.get("res_path"):
            info["res_npath"] = norm_path(c["res_path"])
        return info

    def _classify_drop(self, fn, bb, t):
        info = {"k": "drop", "fn": fn, "bb": bb, "term": t, "dtors": t["dtors"], "has_param": t["has_param"],
                "ty": t["ty"], "kind": "drop", "ukind": "DROP" if t["has_param"] else None, "targets": [],
                "needs_drop": t["needs_drop"], "exp": t.get("exp", [])}
        info["targets"] = [self.fns[d] for d in t["dtors"] if d in self.fns]
        if t["has_param"] and not t["dtors"] and self._private_higher_order(fn) and self._closure_args_need_no_drop(fn) and ("<" not in t["ty"] or t["ty"].startswith("impl ")):
            # dropping the (unused) closure argument of a crate-private higher-order helper: every closure ever passed captures nothing that needs dropping
            info["ukind"] = None
            info["has_param"] = False
        return info

    def _closure_args_need_no_drop(self, fn):
        c = self.__dict__.setdefault("_cand", {})
        if fn.id in c:
            return c[fn.id]
        ok = True
        for g in self.fns.values():
            for b in g.blocks:
                t = b["term"]
                if t["k"] == "call" and not t["callee"].get("indirect") and t["callee"].get("id") == fn.id:
                    nd = t["callee"].get("substs_needs_drop", [])
                    if not nd or any(x is not False for x in nd):
                        ok = False
        c[fn.id] = ok
        return ok

    # ---- may-U ---------------------------------------------------------------------------
    def _compute_mayU(self):
        direct = defaultdict(set)          # sites on normal blocks
        direct_cleanup = defaultdict(set)  # sites on cleanup blocks: only run once an unwinding has started
        edges = defaultdict(set)
        for f in self.fns.values():
            for bb in range(len(f.blocks)):
                ci = self.classify(f, bb)
                if not ci:
                    continue
                if ci.get("ukind") in U_KINDS:
                    if f.blocks[bb]["cleanup"]:
                        direct_cleanup[f.id].add(ci["ukind"])
                    else:
                        direct[f.id].add(ci["ukind"])
                    self.usites.append((f, bb, ci["ukind"], ci))
                if f.blocks[bb]["cleanup"]:
                    continue
                for tf in ci.get("targets", []):
                    edges[f.id].add(tf.id)
                for cl in ci.get("closures", []):
                    edges[f.id].add(cl)
                if ci["k"] == "call" and ci["kind"] == "dropglue":
                    for d in ci.get("dtors", []):
                        if d in self.fns:
                            edges[f.id].add(d)
        mayU = {fid: set(k) for fid, k in direct.items()}
        changed = True
        while changed:
            changed = False
            for fid, outs in edges.items():
                cur = mayU.setdefault(fid, set())
                before = len(cur)
                for o in outs:
                    cur |= mayU.get(o, set())
                if len(cur) != before:
                    changed = True
            # a cleanup-block callback site runs only if user code can start an unwinding inside this function
            for fid, ks in direct_cleanup.items():
                cur = mayU.setdefault(fid, set())
                if cur and not ks <= cur:
                    cur |= ks
                    changed = True
        self.mayU = mayU
        self.call_edges = edges

    def fn_mayU(self, fn):
        return self.mayU.get(fn.id, set())

    def site_mayU(self, ci):
        """Kinds of user callbacks a call/drop site can reach."""
        if ci is None:
            return set()
        ks = set()
        if ci.get("ukind") in U_KINDS:
            ks.add(ci["ukind"])
        for tf in ci.get("targets", []):
            ks |= self.fn_mayU(tf)
        for cl in ci.get("closures", []):
            ks |= self.mayU.get(cl, set())
        if ci["k"] == "call" and ci["kind"] == "dropglue":
            for d in ci.get("dtors", []):
                ks |= self.mayU.get(d, set())
        return ks

    def callers(self, target_id):
        res = []
        for f in self.fns.values():
            for bb in range(len(f.blocks)):
                ci = self.classify(f, bb)
                if ci and any(tf.id == target_id for tf in ci.get("targets", [])):
                    res.append((f, bb, ci))
        return res

    def call_sites(self, pred):
        """All (fn, bb, ci) whose call info satisfies pred."""
        res = []
        for f in self.fns.values():
            for bb in range(len(f.blocks)):
                ci = self.classify(f, bb)
                if ci and ci["k"] == "call" and pred(ci):
                    res.append((f, bb, ci))
        return res


# --------------------------------------------------------------------------------------------
# symbolic expressions: nested tuples

def E_deref(x):
    if isinstance(x, tuple) and x and x[0] == "ref":
        return x[1]
    if isinstance(x, tuple) and x and x[0] == "env":
        return x
    return ("deref", x)


def E_ref(x):
    if isinstance(x, tuple) and x and x[0] == "deref":
        return x[1]
    return ("ref", x)


def E_field(x, name, idx=None):
    if isinstance(x, tuple) and x:
        if x[0] == "env":
            try:
                return x[2][int(name)]
            except (ValueError, IndexError):
                return ("field", x, name)
        if x[0] == "agg" and idx is not None and x[1] in ("tuple",) and idx < len(x[3]):
            return x[3][idx]
        if x[0] == "agg" and x[1] == "adt" and name in x[4]:
            return x[3][x[4].index(name)]
        if x[0] == "as" and isinstance(x[1], tuple) and x[1] and x[1][0] == "agg" and x[1][1] == "adt" and x[1][2].endswith("::" + x[2]):
            a = x[1]
            if name in a[4]:
                return a[3][a[4].index(name)]
    return ("field", x, name)


def strip(x):
    """Object designated by a pointer-ish expression: strip reference layers."""
    while isinstance(x, tuple) and x and x[0] in ("ref", "deref", "unsize"):
        x = x[1]
    return x


def fmt(e, depth=0):
    if not isinstance(e, tuple) or not e:
        return str(e)
    if depth > 40:
        return "..."
    k = e[0]
    if k == "param":
        return e[1]
    if k == "const":
        return str(e[1])
    if k == "field":
        return "%s.%s" % (fmt(e[1], depth + 1), e[2])
    if k == "deref":
        return "*%s" % fmt(e[1], depth + 1)
    if k == "ref":
        return "&%s" % fmt(e[1], depth + 1)
    if k == "as":
        return "(%s as %s)" % (fmt(e[1], depth + 1), e[2])
    if k == "call":
        return "%s(%s)" % (e[1].split("::")[-1] if not e[1].startswith("<") else e[1], ", ".join(fmt(a, depth + 1) for a in e[2]))
    if k == "ret":
        return "%s(%s)@%s" % (e[1].split("::")[-1], ", ".join(fmt(a, depth + 1) for a in e[2]), e[3])
    if k == "bin":
        return "(%s %s %s)" % (fmt(e[2], depth + 1), e[1], fmt(e[3], depth + 1))
    if k == "un":
        return "%s(%s)" % (e[1], fmt(e[2], depth + 1))
    if k == "agg":
        return "%s{%s}" % (e[2] if e[1] == "adt" else e[1], ", ".join(fmt(a, depth + 1) for a in e[3]))
    if k == "env":
        return "env<%s>" % e[1].split("::")[-1]
    if k == "cbarg":
        return "cbarg%d<%s>" % (e[2], e[1].split("::", 1)[-1])
    if k == "phi":
        return "phi(_%s)" % e[2]
    if k == "var":
        return "var(%s)" % e[3]
    if k == "load":
        return "load(%s)" % fmt(e[1], depth + 1)
    if k == "discr":
        return "discr(%s)" % fmt(e[1], depth + 1)
    if k == "unsize":
        return "unsize(%s)" % fmt(e[1], depth + 1)
    return str(e)


# --------------------------------------------------------------------------------------------


# method spellings of the raw-pointer primitives: the same operation as the free function the rules name
STD_ALIASES = {
    "std::ptr::const_ptr::<impl *const T>::read": "std::ptr::read",
    "std::ptr::mut_ptr::<impl *mut T>::read": "std::ptr::read",
    "std::ptr::NonNull::<T>::read": "std::ptr::read",
    "std::ptr::mut_ptr::<impl *mut T>::write": "std::ptr::write",
    "std::ptr::NonNull::<T>::write": "std::ptr::write",
    "std::ptr::mut_ptr::<impl *mut T>::drop_in_place": "std::ptr::drop_in_place",
    "std::ptr::NonNull::<T>::drop_in_place": "std::ptr::drop_in_place",
    "<std::ptr::NonNull<T> as std::cmp::PartialEq>::eq": "std::ptr::eq",
    "std::ptr::addr_eq": "std::ptr::eq",
}


class Ctx:
    """One inlined instance of a function body."""
    __slots__ = ("id", "fn", "parent", "call_node", "bind", "ret_to", "unwind_to", "depth", "chain", "memo", "busy", "via")

    def __init__(self, id, fn, parent, call_node, bind, ret_to, unwind_to, depth, via):
        self.id = id
        self.fn = fn
        self.parent = parent
        self.call_node = call_node
        self.bind = bind          # local index -> expr
        self.ret_to = ret_to      # list of nodes
        self.unwind_to = unwind_to
        self.depth = depth
        self.chain = (parent.chain if parent else ()) + (fn.id,)
        self.memo = {}
        self.busy = set()
        self.via = via            # 'root' | 'call' | 'closure' | 'dtor' | 'virtual'


class Node:
    __slots__ = ("ctx", "bb", "succ", "pred", "idx", "ci", "is_cleanup", "edge_kind", "inlined", "kind", "bound_closure")

    def __init__(self, ctx, bb, idx):
        self.ctx = ctx
        self.bb = bb
        self.idx = idx
        self.succ = []   # list of (node, label) label: 'n' normal, 'u' unwind, ('sw', value) switch, 'call' into callee, 'ret' from callee
        self.pred = []
        self.ci = None
        self.inlined = False
        self.is_cleanup = ctx.fn.blocks[bb]["cleanup"]
        self.kind = ctx.fn.blocks[bb]["term"]["k"]

    @property
    def term(self):
        return self.ctx.fn.blocks[self.bb]["term"]

    @property
    def stmts(self):
        return self.ctx.fn.blocks[self.bb]["stmts"]

    def where(self):
        t = self.term
        return "%s bb%d (%s)" % (self.ctx.fn.npath, self.bb, t.get("line", self.ctx.fn.span))

    def __repr__(self):
        return "<N%d %s bb%d>" % (self.idx, self.ctx.fn.npath.split("::")[-1], self.bb)


class Super:
    """Interprocedural CFG rooted at one function with crate-local helpers, closures and
    non-user destructors expanded in place."""

    MAX_DEPTH = 40

    def __init__(self, prog, root, opaque=(), expand_dtors=True, prune_const=True, max_nodes=40000, getter_sites=False, expand_user_dtors=False):
        self.P = prog
        self.root = root
        self.opaque = set(opaque)
        self.expand_dtors = expand_dtors
        self.prune_const = prune_const
        self.nodes = []
        self.ctxs = []
        self.exit_return = None
        self.exit_resume = None
        self.max_nodes = max_nodes
        self.getter_sites = getter_sites
        self.expand_user_dtors = expand_user_dtors
        self._build()

    # ---- construction -----------------------------------------------------------------
    def _new_ctx(self, fn, parent, call_node, bind, ret_to, unwind_to, via):
        c = Ctx(len(self.ctxs), fn, parent, call_node, bind, ret_to, unwind_to, (parent.depth + 1) if parent else 0, via)
        self.ctxs.append(c)
        return c

    def _is_opaque(self, fn):
        return fn.npath in self.opaque

    def _build(self):
        self.RET = "RET"
        self.RESUME = "RESUME"
        self.blocks_of = {}
        root_ctx = self._new_ctx(self.root, None, None, {}, [self.RET], [self.RESUME], "root")
        self.root_ctx = root_ctx
        self._expand_ctx(root_ctx)
        # resolve symbolic exits
        self.returns = []
        self.resumes = []
        for n in self.nodes:
            newsucc = []
            for (s, lab) in n.succ:
                if s == self.RET:
                    self.returns.append(n)
                elif s == self.RESUME:
                    self.resumes.append((n, lab))
                else:
                    newsucc.append((s, lab))
            n.succ = newsucc
        self.entry = self.blocks_of[(root_ctx.id, 0)]
        self._prune_drop_flags()
        for n in self.nodes:
            for (s, lab) in n.succ:
                s.pred.append((n, lab))

    def _flag_locals(self, fn):
        """bool locals whose every definition is a constant (drop flags)."""
        fl = getattr(fn, "_flag_locals", None)
        if fl is None:
            fl = {}
            defs = self._defs(fn)
            for l, ds in defs.items():
                if fn.locals[l]["ty"] != "bool" or len(ds) < 2 or l in fn._partial:
                    continue
                vals = []
                for d in ds:
                    if d[0] != "stmt":
                        vals = None
                        break
                    rv = fn.blocks[d[1]]["stmts"][d[2]]["rv"]
                    if rv["k"] == "use" and rv["op"]["k"] == "const" and "val" in rv["op"]:
                        vals.append(rv["op"]["val"])
                    else:
                        vals = None
                        break
                if vals is not None:
                    fl[l] = True
            fn._flag_locals = fl
        return fl

    def _prune_drop_flags(self):
        """Forward constant propagation of drop flags (internal-panic edges excluded) and removal of the
        switch edges they make infeasible: a cleanup block reached from one unwind edge only sees the
        flag values of that edge."""
        sw = []
        self.flag_in = {}
        self.flag_keys = set()
        for n in self.nodes:
            if n.kind == "switch":
                e = self.switch_expr(n)
                if isinstance(e, tuple) and e and e[0] == "phi" and e[1] == n.ctx.id and e[2] in self._flag_locals(n.ctx.fn):
                    sw.append((n, e[2]))
        if not sw:
            return
        keys = {(n.ctx.id, l) for n, l in sw}
        # state per node: dict key -> frozenset(values); absent = unassigned
        IN = {self.entry.idx: {}}
        dq = deque([self.entry])
        while dq:
            n = dq.popleft()
            st = dict(IN.get(n.idx, {}))
            fl = self._flag_locals(n.ctx.fn)
            for s_ in n.stmts:
                if s_["k"] == "assign" and not s_["place"]["p"] and s_["place"]["l"] in fl and (n.ctx.id, s_["place"]["l"]) in keys:
                    st[(n.ctx.id, s_["place"]["l"])] = frozenset([s_["rv"]["op"]["val"]])
            for (t, lab) in n.succ:
                if t in (self.RET, self.RESUME) or not isinstance(t, Node):
                    continue
                l0 = lab[0] if isinstance(lab, tuple) else lab
                if l0 == "ui":
                    continue
                st2 = st
                if n.kind == "switch" and isinstance(lab, tuple):
                    e = self.switch_expr(n)
                    if isinstance(e, tuple) and e and e[0] == "phi" and (e[1], e[2]) in keys and (e[1], e[2]) in st:
                        vals = st[(e[1], e[2])]
                        if lab[1] == "otherwise":
                            keep = frozenset(v for v in vals if v != 0)
                        else:
                            keep = frozenset(v for v in vals if v == lab[1])
                        if not keep:
                            continue
                        st2 = dict(st)
                        st2[(e[1], e[2])] = keep
                cur = IN.get(t.idx)
                if cur is None:
                    IN[t.idx] = dict(st2)
                    dq.append(t)
                else:
                    ch = False
                    for k_, v in st2.items():
                        if k_ not in cur:
                            cur[k_] = v
                            ch = True
                        elif not v <= cur[k_]:
                            cur[k_] = cur[k_] | v
                            ch = True
                    if ch:
                        dq.append(t)
        self.flag_in = IN
        self.flag_keys = keys
        for (n, l) in sw:
            st = IN.get(n.idx)
            if st is None or (n.ctx.id, l) not in st:
                continue
            vals = st[(n.ctx.id, l)]
            new = []
            for (t, lab) in n.succ:
                if isinstance(lab, tuple):
                    if lab[1] == "otherwise":
                        feas = any(v != 0 for v in vals)
                    else:
                        feas = lab[1] in vals
                    if not feas:
                        continue
                new.append((t, lab))
            n.succ = new

    def _node(self, ctx, bb):
        key = (ctx.id, bb)
        n = self.blocks_of.get(key)
        if n is None:
            n = Node(ctx, bb, len(self.nodes))
            self.nodes.append(n)
            self.blocks_of[key] = n
        return n

    def _unwind_targets(self, ctx, u):
        if isinstance(u, int):
            return [self._node(ctx, u)]
        if u == "continue":
            return list(ctx.unwind_to)
        return []

    def _const_switch_target(self, ctx, t):
        op = t["op"]
        e = self.resolve_op(ctx, op)
        if isinstance(e, tuple) and e and e[0] == "const" and isinstance(e[1], int):
            v = e[1]
            for val, bb in t["targets"]:
                if val == v:
                    return bb
            return t["otherwise"]
        return None

    def _expand_ctx(self, ctx):
        fn = ctx.fn
        if len(self.nodes) > self.max_nodes:
            raise RuntimeError("supergraph too large for %s" % self.root.npath)
        work = [0]
        seen = set()
        while work:
            bb = work.pop()
            if bb in seen:
                continue
            seen.add(bb)
            n = self._node(ctx, bb)
            t = fn.blocks[bb]["term"]
            k = t["k"]
            if k == "goto":
                n.succ.append((self._node(ctx, t["target"]), "n"))
                work.append(t["target"])
            elif k == "switch":
                ct = self._const_switch_target(ctx, t) if self.prune_const else None
                if ct is not None:
                    n.succ.append((self._node(ctx, ct), "n"))
                    work.append(ct)
                else:
                    for val, tb in t["targets"]:
                        n.succ.append((self._node(ctx, tb), ("sw", val)))
                        work.append(tb)
                    n.succ.append((self._node(ctx, t["otherwise"]), ("sw", "otherwise")))
                    work.append(t["otherwise"])
            elif k == "return":
                for r in ctx.ret_to:
                    n.succ.append((r, "ret"))
            elif k == "resume":
                for r in ctx.unwind_to:
                    n.succ.append((r, "u"))
            elif k in ("unreachable", "terminate", "other"):
                pass
            elif k == "assert":
                n.succ.append((self._node(ctx, t["target"]), "n"))
                work.append(t["target"])
                # overflow / null / alignment asserts are internal panics; keep the unwind edge tagged 'ui'
                for u in self._unwind_targets(ctx, t["unwind"]):
                    n.succ.append((u, "ui"))
                if isinstance(t["unwind"], int):
                    work.append(t["unwind"])
            elif k in ("call", "drop"):
                ci = self.P.classify(fn, bb)
                n.ci = ci
                tgt = t["target"]
                cont = [self._node(ctx, tgt)] if tgt is not None else []
                if tgt is not None:
                    work.append(tgt)
                unw = self._unwind_targets(ctx, t["unwind"])
                if isinstance(t["unwind"], int):
                    work.append(t["unwind"])
                self._link_call(ctx, n, ci, cont, unw)
            else:
                pass

    def _may_unwind_label(self, ci):
        ks = self.P.site_mayU(ci)
        return "u" if ks else "ui"

    def _link_call(self, ctx, n, ci, cont, unw):
        P = self.P
        expanded = False
        too_deep = ctx.depth >= self.MAX_DEPTH
        if ci["k"] == "call" and ci.get("kind") == "indirect":
            # a call through a fn pointer whose value is, in this context, a known function item of the crate (e.g. a guard that
            # stores the setter to call on drop): the same as calling that function
            op = ci["term"]["callee"].get("op")
            v = strip(self.resolve_op(ctx, op)) if op else None
            if isinstance(v, tuple) and v and v[0] == "fnitem":
                try:
                    tf = P.F.fn(v[1])
                except KeyError:
                    tf = None
                if tf is not None:
                    ci = dict(ci)
                    ci.update(kind="crate", npath=tf.npath, targets=[tf], resolved_indirect=True)
                    n.ci = ci
        if ci["k"] == "call":
            kind = ci["kind"]
            targets = ci.get("targets", [])
            if kind in ("crate", "virtual") and targets and not too_deep:
                ok = [tf for tf in targets if not self._is_opaque(tf) and tf.id not in ctx.chain]
                if ok and len(ok) == len(targets):
                    for tf in ok:
                        bind = self._bind_args(ctx, n, tf, ci)
                        sub = self._new_ctx(tf, ctx, n, bind, cont, unw, "virtual" if kind == "virtual" else "call")
                        self._expand_ctx(sub)
                        n.succ.append((self._node(sub, 0), "call"))
                    expanded = True
            if not expanded and not too_deep and ci.get("kind") in ("wrapper_f", "usite") and ci.get("ukind") in (None, "CLOSURE") and ci["term"]["args"]:
                v0 = strip(self.resolve_op(ctx, ci["term"]["args"][0]))
                if isinstance(v0, tuple) and v0 and v0[0] == "env" and v0[1] in P.fns and v0[1] not in ctx.chain:
                    cf = P.fns[v0[1]]
                    bind = {1: v0}
                    if len(ci["term"]["args"]) > 1:
                        tup = self.resolve_op(ctx, ci["term"]["args"][1])
                        for i in range(cf.arg_count - 1):
                            bind[2 + i] = E_field(tup, str(i), i)
                    sub = self._new_ctx(cf, ctx, n, bind, cont, unw, "closure")
                    self._expand_ctx(sub)
                    n.succ.append((self._node(sub, 0), "call"))
                    expanded = True
                    n.bound_closure = cf
            # closures handed to a higher-order callee (crate wrapper or std)
            cls = [P.fns[c] for c in ci.get("closures", []) if c in P.fns]
            if not expanded and not too_deep and kind in ("std", "crate", "virtual"):
                # closures that reach this call as *values* through a generic helper (the callee's type argument is then
                # just the helper's type parameter): found by resolving the arguments
                for a in ci["term"]["args"]:
                    v = strip(self.resolve_op(ctx, a))
                    if isinstance(v, tuple) and v and v[0] == "env" and v[1] in P.fns and P.fns[v[1]] not in cls:
                        cls.append(P.fns[v[1]])
            if not expanded and cls and not too_deep:
                mn, mx = HIGHER_ORDER.get(ci["npath"], (0, None))
                if ci["npath"] not in HIGHER_ORDER:
                    ci["unknown_higher_order"] = True
                any_exp = False
                for cf in cls:
                    if cf.id in ctx.chain:
                        continue
                    if mx == 0:
                        continue
                    bind = self._bind_closure(ctx, n, cf, ci)
                    ret = list(cont)
                    sub = self._new_ctx(cf, ctx, n, bind, ret, unw, "closure")
                    self._expand_ctx(sub)
                    entry = self._node(sub, 0)
                    n.succ.append((entry, "call"))
                    if mx is None:
                        # loop: closure return may re-enter the closure
                        for rn in [x for x in self.nodes if x.ctx is sub and x.kind == "return"]:
                            rn.succ.append((entry, "loop"))
                    any_exp = True
                if any_exp:
                    expanded = True
                    if mn == 0 or len(cls) > 1:
                        for c2 in cont:
                            n.succ.append((c2, "skip"))
                    # the higher-order callee itself may also unwind for internal reasons: ignore
        else:  # drop terminator
            if self.expand_dtors and not too_deep:
                dts = [tf for tf in ci.get("targets", []) if not self._is_opaque(tf) and tf.id not in ctx.chain and (self.expand_user_dtors or not P.fn_mayU(tf))]
                # only expand when *all* destructors in the tree are crate-local, non-user and not opaque
                if dts and len(dts) == len(ci["dtors"]) and not ci["has_param"]:
                    # chain the destructors one after another
                    prev_conts = cont
                    # build in reverse so that each returns to the next
                    nxt = cont
                    entries = []
                    for tf in reversed(dts):
                        place = self.resolve_place(ctx, ci["term"]["place"])
                        bind = {1: E_ref(place) if tf.id == ci["dtors"][0] or len(dts) == 1 else ("dropfield", place, tf.npath)}
                        sub = self._new_ctx(tf, ctx, n, bind, nxt, unw, "dtor")
                        self._expand_ctx(sub)
                        nxt = [self._node(sub, 0)]
                    for e in nxt:
                        n.succ.append((e, "call"))
                    expanded = True
        n.inlined = expanded
        if not expanded:
            for c2 in cont:
                n.succ.append((c2, "n"))
        # unwind edge out of the call itself (the callee body, when expanded, carries its own unwind edges)
        if not expanded:
            lab = self._may_unwind_label(ci)
            for u in unw:
                n.succ.append((u, lab))

    def _bind_args(self, ctx, n, tf, ci):
        t = ci["term"]
        bind = {}
        args = t["args"]
        if ci.get("direct_closure"):
            # <closure as FnOnce>::call_once(closure, (args,))
            if args:
                bind[1] = self.resolve_op(ctx, args[0])
            if len(args) > 1:
                tup = self.resolve_op(ctx, args[1])
                for i in range(tf.arg_count - 1):
                    bind[2 + i] = E_field(tup, str(i), i)
            return bind
        for i, a in enumerate(args):
            if i < tf.arg_count:
                bind[i + 1] = self.resolve_op(ctx, a)
        return bind

    def _bind_closure(self, ctx, n, cf, ci):
        # find the closure value among the call's arguments
        t = ci["term"]
        bind = {}
        env = None
        for a in t["args"]:
            v = self.resolve_op(ctx, a)
            vv = strip(v)
            if isinstance(vv, tuple) and vv and vv[0] == "env" and vv[1] == cf.id:
                env = vv
                break
        if env is None:
            env = ("env", cf.id, ())
        bind[1] = env
        recv = None
        if t["args"]:
            recv = self.resolve_op(ctx, t["args"][0])
        for i in range(2, cf.arg_count + 1):
            bind[i] = ("cbarg", cf.id, i, ci["npath"], recv)
        return bind

    # ---- value resolution ---------------------------------------------------------------
    def _defs(self, fn):
        d = getattr(fn, "_defs", None)
        if d is not None:
            return d
        d = defaultdict(list)
        partial = set()
        mutb = set()
        for bi, b in enumerate(fn.blocks):
            for si, s in enumerate(b["stmts"]):
                if s["k"] == "assign":
                    if not s["place"]["p"]:
                        d[s["place"]["l"]].append(("stmt", bi, si))
                    else:
                        partial.add(s["place"]["l"])
                    rv = s["rv"]
                    if rv["k"] in ("ref", "rawptr") and rv.get("mut") and "*" not in rv["place"]["p"]:
                        mutb.add(rv["place"]["l"])
            t = b["term"]
            if t["k"] == "call":
                if not t["dest"]["p"]:
                    d[t["dest"]["l"]].append(("call", bi))
                else:
                    partial.add(t["dest"]["l"])
        fn._mutborrowed = mutb
        fn._defs = d
        fn._partial = partial
        return d

    def phi_values(self, e):
        """The values a ('phi', ctx id, local) merges - one per defining statement - or None when a definition is not a plain
        assignment or call in that body (partial writes, mutable borrows)."""
        e = strip(e)
        if not (isinstance(e, tuple) and len(e) == 3 and e[0] == "phi" and isinstance(e[1], int) and 0 <= e[1] < len(self.ctxs)):
            return None
        ctx = self.ctxs[e[1]]
        fn = ctx.fn
        defs = self._defs(fn).get(e[2], [])
        if not defs or e[2] in fn._partial or e[2] in fn._mutborrowed:
            return None
        out = []
        for d in defs:
            if d[0] == "stmt":
                out.append(self.resolve_rv(ctx, fn.blocks[d[1]]["stmts"][d[2]]["rv"], None))
            else:
                out.append(self.resolve_call_value(ctx, d[1]))
        return out

    def resolve_local(self, ctx, l):
        if l in ctx.memo:
            return ctx.memo[l]
        if l in ctx.busy:
            return ("phi", ctx.id, l)
        ctx.busy.add(l)
        try:
            r = self._resolve_local(ctx, l)
        finally:
            ctx.busy.discard(l)
        ctx.memo[l] = r
        return r

    def _resolve_local(self, ctx, l):
        fn = ctx.fn
        defs = self._defs(fn).get(l, [])
        if 1 <= l <= fn.arg_count and not defs:
            if l in ctx.bind:
                return ctx.bind[l]
            return ("param", fn.local_name(l), l)
        if len(defs) == 1 and l in fn._mutborrowed and fn.locals[l]["ty"] in ("usize", "u32", "u64", "bool", "i32", "isize", "u16", "u8"):
            # a scalar that is handed out by `&mut` (e.g. a counter updated inside a closure): its single visible
            # definition is only the initial value
            return ("var", ctx.id, l, fn.local_name(l))
        if len(defs) == 1:
            d = defs[0]
            if d[0] == "stmt":
                s = fn.blocks[d[1]]["stmts"][d[2]]
                return self.resolve_rv(ctx, s["rv"], (d[1], d[2]))
            else:
                return self.resolve_call_value(ctx, d[1])
        if not defs:
            return ("undef", ctx.id, l)
        return ("phi", ctx.id, l)

    def resolve_place(self, ctx, p):
        x = self.resolve_local(ctx, p["l"])
        for e in p["p"]:
            if e == "*":
                x = E_deref(x)
            elif isinstance(e, dict) and "f" in e:
                v = self._variant_payload(x, e["n"], e["f"]) if isinstance(x, tuple) and x and x[0] == "as" else None
                x = v if v is not None else E_field(x, e["n"], e["f"])
            elif isinstance(e, dict) and "v" in e:
                x = ("as", x, e["v"])
            elif isinstance(e, dict) and "idx" in e:
                x = ("index", x)
            elif isinstance(e, dict) and "cidx" in e:
                x = ("cindex", x, e["cidx"])
            else:
                x = ("proj", x, str(e))
        return x

    def _variant_payload(self, x, fname, fidx):
        """`(helper(..) as V).f` where the helper was expanded at that call and builds variant V in exactly one place: that
        aggregate's operand, in the caller's terms (an accessor returning Some(p) hands p itself to its caller)."""
        r = strip(x[1])
        if not (isinstance(r, tuple) and len(r) > 3 and r[0] == "ret" and isinstance(r[3], str)) or not self.ctxs:
            return None
        sub = None
        for c_ in self.ctxs:
            n_ = c_.call_node
            if n_ is not None and c_.via in ("call", "virtual") and n_.term["k"] == "call" and "%s:bb%d" % (n_.ctx.fn.npath, n_.bb) == r[3]:
                if sub is not None:
                    return None
                sub = c_
        if sub is None or sub.fn.id in getattr(self, "_vp_busy", set()):
            return None
        fn = sub.fn
        defs = self._defs(fn).get(0, [])
        if not defs or 0 in fn._partial or any(d[0] != "stmt" for d in defs):
            return None
        hits = []
        for d in defs:
            rv = fn.blocks[d[1]]["stmts"][d[2]]["rv"]
            if rv["k"] != "agg" or rv.get("agg") != "adt":
                return None
            if rv["variant"] == x[2]:
                hits.append(rv)
        if len(hits) != 1 or fidx is None or fidx >= len(hits[0]["ops"]):
            return None
        busy = self.__dict__.setdefault("_vp_busy", set())
        busy.add(fn.id)
        try:
            v = self.resolve_op(sub, hits[0]["ops"][fidx])
        finally:
            busy.discard(fn.id)
        return None if _mentions(v, ("phi", "undef")) else v

    def resolve_op(self, ctx, o):
        k = o["k"]
        if k in ("copy", "move"):
            return self.resolve_place(ctx, o["place"])
        if k == "const":
            if "val" in o:
                return ("const", o["val"])
            if "fn" in o:
                return ("fnitem", norm_path(o["fn"]["path"]))
            return ("const", o["text"])
        return ("other", o.get("text", ""))

    def resolve_rv(self, ctx, r, site):
        k = r["k"]
        if k == "use":
            return self.resolve_op(ctx, r["op"])
        if k in ("ref", "rawptr"):
            return E_ref(self.resolve_place(ctx, r["place"]))
        if k == "bin":
            if r.get("float"):
                return ("bin", r["op"], self.resolve_op(ctx, r["a"]), self.resolve_op(ctx, r["b"]), "float")
            return ("bin", r["op"], self.resolve_op(ctx, r["a"]), self.resolve_op(ctx, r["b"]))
        if k == "un":
            return ("un", r["op"], self.resolve_op(ctx, r["a"]))
        if k == "cast":
            x = self.resolve_op(ctx, r["op"])
            if "Unsize" in r["kind"]:
                return ("unsize", x, r["ty"])
            return x
        if k == "discr":
            return ("discr", self.resolve_place(ctx, r["place"]))
        if k == "agg":
            ops = tuple(self.resolve_op(ctx, o) for o in r["ops"])
            if r["agg"] == "closure":
                return ("env", r["closure"], ops)
            if r["agg"] == "adt":
                return ("agg", "adt", norm_path(r["adt"]) + "::" + r["variant"], ops, tuple(r["fields"]))
            return ("agg", r["agg"], r["agg"], ops, ())
        if k == "tlsref":
            return ("tls", r["static"])
        return ("other", r.get("text", k))

    def _single_path(self, fn):
        sp = getattr(fn, "_single_path", None)
        if sp is None:
            sp = True
            for b in fn.blocks:
                if b["cleanup"]:
                    continue
                if b["term"]["k"] == "switch":
                    # allow constant switches (debug_assert! guards) only
                    if not (b["term"]["op"]["k"] == "const"):
                        sp = False
                        break
            fn._single_path = sp
        return sp

    def resolve_call_value(self, ctx, bb):
        fn = ctx.fn
        ci = self.P.classify(fn, bb)
        t = fn.blocks[bb]["term"]
        args = tuple(self.resolve_op(ctx, a) for a in t["args"])
        np = ci["npath"]
        if ci["kind"] == "std":
            if np in TRANSPARENT or ci.get("res_npath") in TRANSPARENT:
                return args[0] if args else ("call", np, args)
            if np.endswith("Clone::clone") and args:
                # cloning a Copy pointer (NonNull, Option<NonNull>) is the identity on designation
                rp = ci.get("res_npath", "")
                if "NonNull" in rp or "Option" in rp or rp.startswith("std::clone::impls"):
                    return args[0]
            if np.startswith("std::cell::Cell::<T>::get"):
                return ("load", args[0])
            if not args and t["callee"].get("substs"):
                return ("call", np, args, tuple(t["callee"]["substs"]))
            if not np.startswith(("std::", "<")):
                # third-party crates (synstructure, quote, slotmap...): not known to be pure, keep the call site in the identity
                return ("ret", np, args, "%s:bb%d" % (fn.npath, bb))
            return ("call", np, args)
        if ci["kind"] == "crate" and ci["targets"]:
            tf = ci["targets"][0]
            v = self._expanded_tuple_result(ctx, bb)     # the expansion that is really in the graph (its call sites carry their identity)
            if v is not None:
                return v
            if tf.kind != "closure" and self._single_path(tf) and tf.id not in ctx.chain and ctx.depth < self.MAX_DEPTH and not self.P.fn_mayU(tf) and tf.npath not in PURE_GETTERS and tf.npath not in self.opaque:
                # accessor-like: substitute symbolically
                bind = {i + 1: a for i, a in enumerate(args) if i < tf.arg_count}
                sub = Ctx(-1, tf, ctx, None, bind, [], [], ctx.depth + 1, "value")
                v = self.resolve_local(sub, 0)
                if not _mentions_sub(v):
                    return v
            if np in PURE_GETTERS:
                if self.getter_sites:
                    return ("call", np, args, "%d:%d" % (ctx.id, bb))
                return ("call", np, args)
            v = self._expanded_tuple_result(ctx, bb)
            if v is not None:
                return v
            return ("ret", np, args, "%s:bb%d" % (fn.npath, bb))
        v = self._expanded_closure_result(ctx, bb)
        if v is not None:
            return v
        return ("ret", np, args, "%s:bb%d" % (fn.npath, bb))

    def _expanded_closure_result(self, ctx, bb):
        """A call of a closure *parameter* (`f(x)` in a private generic helper) whose closure is known here and was expanded: when
        the closure computes its result in one place, that value (e.g. `old + 1` handed in by the caller)."""
        if ctx.id < 0:
            return None
        n = self.blocks_of.get((ctx.id, bb))
        if n is None or not n.inlined or getattr(n, "bound_closure", None) is None:
            return None
        subs = [c for c in self.ctxs if c.call_node is n and c.via == "closure"]
        if len(subs) != 1:
            return None
        sub = subs[0]
        defs = self._defs(sub.fn).get(0, [])
        if len(defs) != 1 or 0 in sub.fn._partial:
            return None
        d = defs[0]
        v = self.resolve_rv(sub, sub.fn.blocks[d[1]]["stmts"][d[2]]["rv"], None) if d[0] == "stmt" else self.resolve_call_value(sub, d[1])
        return None if _mentions(v, ("phi", "undef")) else v

    def _expanded_tuple_result(self, ctx, bb):
        """A helper expanded at this call site that returns a tuple built in one place (`(a, b)` as its last expression): the
        components keep their identity in the caller (an extract-function refactor returning several values)."""
        if ctx.id < 0:
            return None
        n = self.blocks_of.get((ctx.id, bb))
        if n is None or not n.inlined:
            return None
        sub = None
        for c in self.ctxs:
            if c.call_node is n and c.via in ("call", "virtual"):
                if sub is not None:
                    return None
                sub = c
        if sub is None:
            return None
        defs = self._defs(sub.fn).get(0, [])
        if len(defs) != 1 or defs[0][0] != "stmt" or 0 in sub.fn._partial:
            return None
        rv = sub.fn.blocks[defs[0][1]]["stmts"][defs[0][2]]["rv"]
        if rv["k"] != "agg" or rv.get("agg") not in ("tuple", "adt") or not rv["ops"]:
            return None
        v = self.resolve_rv(sub, rv, None)
        return None if _mentions(v, ("phi", "undef")) else v

    def expand_rets(self, e, depth=0):
        """e with every ('ret', helper, ..) of an expanded single-result helper replaced by that result (see expanded_result)."""
        if not isinstance(e, tuple) or depth > 12:
            return e
        if e and e[0] == "ret":
            v = self.expanded_result(e)
            if v is not None:
                return self.expand_rets(v, depth + 1)
        return tuple(self.expand_rets(x, depth + 1) if isinstance(x, tuple) else x for x in e)

    def expanded_result(self, e):
        """For rules: the value of ('ret', helper, args, site) when the helper was expanded at that site and assigns its result in
        exactly one place (a statement or a call): what the helper hands back, in the caller's terms. None otherwise."""
        e = strip(e)
        if not (isinstance(e, tuple) and len(e) > 3 and e[0] == "ret" and isinstance(e[3], str)):
            return None
        for c in self.ctxs:
            n = c.call_node
            if n is None or c.via not in ("call", "virtual") or n.term["k"] != "call":
                continue
            if "%s:bb%d" % (n.ctx.fn.npath, n.bb) != e[3]:
                continue
            defs = self._defs(c.fn).get(0, [])
            if len(defs) != 1 or 0 in c.fn._partial:
                return None
            d = defs[0]
            v = self.resolve_rv(c, c.fn.blocks[d[1]]["stmts"][d[2]]["rv"], None) if d[0] == "stmt" else self.resolve_call_value(c, d[1])
            return None if _mentions(v, ("phi", "undef")) else v
        return None

    # ---- events ---------------------------------------------------------------------------
    def call_nodes(self, pred=None):
        for n in self.nodes:
            if n.ci is not None and not n.inlined:
                if pred is None or pred(n):
                    yield n

    def calls_to(self, *npaths):
        s = set(npaths)
        return [n for n in self.nodes if n.ci is not None and n.ci["k"] == "call" and n.ci["npath"] in s]

    def args_of(self, n):
        return tuple(self.resolve_op(n.ctx, a) for a in n.term["args"])

    def usite_nodes(self, kinds=U_KINDS):
        return [n for n in self.nodes if n.ci is not None and not n.inlined and n.ci.get("ukind") in kinds]

    def mayU_nodes(self, kinds=U_KINDS):
        ks = set(kinds)
        return [n for n in self.nodes if n.ci is not None and not n.inlined and (self.P.site_mayU(n.ci) & ks)]

    # ---- graph algorithms --------------------------------------------------------------
    def succs(self, n, labels=None, exclude=("ui",)):
        for (s, lab) in n.succ:
            l0 = lab[0] if isinstance(lab, tuple) else lab
            if labels is not None and l0 not in labels:
                continue
            if l0 in exclude:
                continue
            yield s

    def reachable(self, start, exclude=("ui",), stop=None, labels=None):
        seen = set()
        dq = deque(start if isinstance(start, (list, tuple, set)) else [start])
        while dq:
            n = dq.popleft()
            if n.idx in seen:
                continue
            seen.add(n.idx)
            if stop and stop(n):
                continue
            for s in self.succs(n, labels, exclude):
                if s.idx not in seen:
                    dq.append(s)
        return seen

    def dominators(self, exclude=("ui",)):
        """idom-free iterative dominator sets (graphs are small). Returns dict idx -> frozenset(idx)."""
        key = ("dom", exclude)
        c = getattr(self, "_cache", None)
        if c is None:
            c = self._cache = {}
        if key in c:
            return c[key]
        reach = self.reachable(self.entry, exclude)
        order = self._rpo(exclude)
        allset = frozenset(reach)
        dom = {i: allset for i in reach}
        dom[self.entry.idx] = frozenset([self.entry.idx])
        preds = defaultdict(list)
        for n in self.nodes:
            if n.idx not in reach:
                continue
            for s in self.succs(n, None, exclude):
                preds[s.idx].append(n.idx)
        changed = True
        while changed:
            changed = False
            for i in order:
                if i == self.entry.idx:
                    continue
                ps = [p for p in preds[i] if p in dom]
                if not ps:
                    continue
                new = frozenset.intersection(*[dom[p] for p in ps]) | {i}
                if new != dom[i]:
                    dom[i] = new
                    changed = True
        c[key] = dom
        return dom

    def _rpo(self, exclude):
        seen = set()
        order = []
        stack = [(self.entry, iter(list(self.succs(self.entry, None, exclude))))]
        seen.add(self.entry.idx)
        while stack:
            n, it = stack[-1]
            adv = False
            for s in it:
                if s.idx not in seen:
                    seen.add(s.idx)
                    stack.append((s, iter(list(self.succs(s, None, exclude)))))
                    adv = True
                    break
            if not adv:
                order.append(n.idx)
                stack.pop()
        order.reverse()
        return order

    def dominates(self, a, b, exclude=("ui",)):
        d = self.dominators(exclude)
        return b.idx in d and a.idx in d[b.idx]

    def edge_dominates(self, src, dst_label_pred, b, exclude=("ui",)):
        """True if every path entry->b uses an edge src->x whose label satisfies the predicate."""
        # remove the qualifying edges and test reachability of b
        if b.idx not in self.reachable(self.entry, exclude):
            return False
        seen = set()
        dq = deque([self.entry])
        while dq:
            n = dq.popleft()
            if n.idx in seen:
                continue
            seen.add(n.idx)
            if n is b:
                return False
            for (s, lab) in n.succ:
                l0 = lab[0] if isinstance(lab, tuple) else lab
                if l0 in exclude:
                    continue
                if n is src and dst_label_pred(s, lab):
                    continue
                dq.append(s)
        return True

    def flag_state_after(self, n):
        """Drop-flag constants known after executing node n (path-insensitive IN state + n's own assignments)."""
        st = dict(self.flag_in.get(n.idx, {}))
        fl = self._flag_locals(n.ctx.fn)
        for s_ in n.stmts:
            if s_["k"] == "assign" and not s_["place"]["p"] and s_["place"]["l"] in fl and (n.ctx.id, s_["place"]["l"]) in self.flag_keys:
                st[(n.ctx.id, s_["place"]["l"])] = frozenset([s_["rv"]["op"]["val"]])
        return st

    def _step(self, n, st, exclude, avoid_labels):
        """Successors of n under drop-flag state st: yields (succ, new_state)."""
        fl = self._flag_locals(n.ctx.fn)
        st2 = st
        for s_ in n.stmts:
            if s_["k"] == "assign" and not s_["place"]["p"] and s_["place"]["l"] in fl and (n.ctx.id, s_["place"]["l"]) in self.flag_keys:
                if st2 is st:
                    st2 = dict(st)
                st2[(n.ctx.id, s_["place"]["l"])] = frozenset([s_["rv"]["op"]["val"]])
        sw_key = None
        if n.kind == "switch":
            e = self.switch_expr(n)
            if isinstance(e, tuple) and e and e[0] == "phi" and (e[1], e[2]) in self.flag_keys and (e[1], e[2]) in st2:
                sw_key = (e[1], e[2])
        for (s, lab) in n.succ:
            l0 = lab[0] if isinstance(lab, tuple) else lab
            if l0 in exclude or l0 in avoid_labels:
                continue
            if sw_key is not None and isinstance(lab, tuple):
                vals = st2[sw_key]
                keep = frozenset(v for v in vals if (v != 0 if lab[1] == "otherwise" else v == lab[1]))
                if not keep:
                    continue
                st3 = dict(st2)
                st3[sw_key] = keep
                yield s, st3
            else:
                yield s, st2

    def must_pass_flags(self, start_node, start_state, target_pred, exits, exclude=("ui",), avoid_labels=()):
        """Like must_pass, but drop flags are tracked path-sensitively from start_state."""
        exits_idx = {e.idx for e in exits}
        seen = set()
        dq = deque([(start_node, start_state)])
        while dq:
            n, st = dq.popleft()
            key = (n.idx, frozenset(st.items()))
            if key in seen:
                continue
            seen.add(key)
            if target_pred(n):
                continue
            if n.idx in exits_idx:
                return False, n
            for s, st2 in self._step(n, st, exclude, avoid_labels):
                dq.append((s, st2))
        return True, None

    def reachable_flags(self, start_node, start_state, exclude=("ui",), avoid_labels=()):
        seen = set()
        nodes = set()
        dq = deque([(start_node, start_state)])
        while dq:
            n, st = dq.popleft()
            key = (n.idx, frozenset(st.items()))
            if key in seen:
                continue
            seen.add(key)
            nodes.add(n.idx)
            for s, st2 in self._step(n, st, exclude, avoid_labels):
                dq.append((s, st2))
        return nodes

    def must_pass(self, frm, target_pred, exits, exclude=("ui",), avoid_labels=()):
        """Every path from `frm` to any node in `exits` passes a node satisfying target_pred
        (checked by removing those nodes). Returns (ok, witness_exit)."""
        seen = set()
        dq = deque([frm])
        exits_idx = {e.idx for e in exits}
        while dq:
            n = dq.popleft()
            if n.idx in seen:
                continue
            seen.add(n.idx)
            if n is not frm and target_pred(n):
                continue
            if n.idx in exits_idx:
                return False, n
            for (s, lab) in n.succ:
                l0 = lab[0] if isinstance(lab, tuple) else lab
                if l0 in exclude or l0 in avoid_labels:
                    continue
                dq.append(s)
        return True, None

    def paths(self, frm, stop_pred, exclude=("ui", "u"), limit=20000, max_visits=1):
        """Enumerate paths (lists of (node, label-taken)) from frm until stop_pred(node) or a node without successors.
        Each node may appear at most `max_visits` times per path (loops cut)."""
        out = []
        stack = [(frm, [], {})]
        while stack:
            n, path, cnt = stack.pop()
            if len(out) > limit:
                raise RuntimeError("path explosion from %r" % frm)
            c = cnt.get(n.idx, 0)
            if c >= max_visits:
                continue
            if stop_pred(n) and path:
                out.append(path + [(n, None)])
                continue
            succ = [(s, lab) for (s, lab) in n.succ if (lab[0] if isinstance(lab, tuple) else lab) not in exclude]
            if not succ:
                out.append(path + [(n, None)])
                continue
            cnt2 = dict(cnt)
            cnt2[n.idx] = c + 1
            for (s, lab) in succ:
                stack.append((s, path + [(n, lab)], cnt2))
        return out

    # ---- branch literals ---------------------------------------------------------------
    def switch_expr(self, n):
        t = n.term
        if t["k"] != "switch":
            return None
        return self.resolve_op(n.ctx, t["op"])

    def literals_at(self, b, exclude=("ui",)):
        """Set of (atom, truth) that hold on every path to node b (edge dominance)."""
        key = ("lits", b.idx, exclude)
        c = getattr(self, "_cache", None)
        if c is None:
            c = self._cache = {}
        if key in c:
            return c[key]
        res = set()
        dom = self.dominators(exclude)
        if b.idx not in dom:
            c[key] = res
            return res
        for i in dom[b.idx]:
            n = self.nodes[i]
            if n.kind != "switch" or n is b:
                continue
            e = self.switch_expr(n)
            if self.prune_const and isinstance(e, tuple) and e and e[0] == "const":
                continue
            # group successor edges by label value
            for (s, lab) in n.succ:
                if not isinstance(lab, tuple):
                    continue
                val = lab[1]
                if self.edge_dominates(n, lambda s2, l2, lab=lab: l2 == lab, b, exclude):
                    # every path passes edge `lab`
                    for lit in normalise_literal(e, val, n.term):
                        res.add(lit)
                        if lit[0][0] == "discr":
                            res |= self._result_literals(lit[0][1], lit[1], exclude)
        c[key] = res
        return res

    def variant_index(self, agg):
        """Index of the variant an ('agg','adt',path::Variant,..) expression builds; None if unknown."""
        if not (isinstance(agg, tuple) and len(agg) > 2 and agg[0] == "agg" and agg[1] == "adt"):
            return None
        path, _, var = agg[2].rpartition("::")
        std = {"std::option::Option": {"None": 0, "Some": 1}, "std::result::Result": {"Ok": 0, "Err": 1}, "std::ops::ControlFlow": {"Continue": 0, "Break": 1}}
        if path in std:
            return std[path].get(var)
        for a in self.P.F.adts.values():
            if norm_path(a["path"]) == path and a.get("discriminants"):
                for i, d in enumerate(a["discriminants"]):
                    if d["variant"] == var:
                        return d["val"]
        return None

    def _result_literals(self, X, what, exclude):
        """`discr(helper(..)) is k` where the helper was expanded at that call and is loop-free: execution passed one of the helper's
        `_0 = <variant k>{..}` assignments, so every literal that holds at all of those assignments holds here as well (an
        accessor returning Some(..) only under a test hands that test on to its caller)."""
        X = strip(X)
        if not (isinstance(X, tuple) and len(X) > 3 and X[0] == "ret" and isinstance(X[3], str)):
            return set()
        sub = None
        for c_ in self.ctxs:
            n_ = c_.call_node
            if n_ is not None and c_.via in ("call", "virtual") and n_.term["k"] == "call" and "%s:bb%d" % (n_.ctx.fn.npath, n_.bb) == X[3]:
                if sub is not None:
                    return set()
                sub = c_
        if sub is None:
            return set()
        fn = sub.fn
        defs = self._defs(fn).get(0, [])
        if not defs or 0 in fn._partial or any(d[0] != "stmt" for d in defs):
            return set()
        sel = []
        for d in defs:
            rv = fn.blocks[d[1]]["stmts"][d[2]]["rv"]
            if rv["k"] != "agg" or rv.get("agg") != "adt":
                return set()
            idx = self.variant_index(("agg", "adt", norm_path(rv["adt"]) + "::" + rv["variant"]))
            if idx is None:
                return set()
            hit = (what[0] == "is" and idx == what[1]) or (what[0] == "not" and idx != what[1]) or (what[0] == "notin" and idx not in what[1])
            if hit:
                nd = self.blocks_of.get((sub.id, d[1]))
                if nd is None:
                    continue      # that assignment is unreachable in this expansion
                sel.append(nd)
        if not sel:
            return set()
        lits = None
        for nd in sel:
            if on_cycle_simple(self, nd, exclude):
                return set()
            L = self.literals_at(nd, exclude)
            lits = set(L) if lits is None else (lits & L)
        return lits or set()


def on_cycle_simple(S, n, exclude):
    """n can reach itself."""
    seen = set()
    st = list(S.succs(n, None, exclude))
    while st:
        x = st.pop()
        if x is n:
            return True
        if x.idx in seen:
            continue
        seen.add(x.idx)
        st.extend(S.succs(x, None, exclude))
    return False


def fresh_literals_at(S, b, exclude=("ui", "u")):
    """Literals holding at b that were established *after* the last call that can reach user code: a literal on
    object/collector state is killed by such a call (user code may do anything through the public API)."""
    res = set()
    dom = S.dominators(exclude)
    if b.idx not in dom:
        return res
    mayu = [m for m in S.mayU_nodes() if m is not b]
    reach_to_b = None
    for i in dom[b.idx]:
        n = S.nodes[i]
        if n.kind != "switch" or n is b:
            continue
        e = S.switch_expr(n)
        if isinstance(e, tuple) and e and e[0] == "const":
            continue
        for (s, lab) in n.succ:
            if not isinstance(lab, tuple):
                continue
            if not S.edge_dominates(n, lambda s2, l2, lab=lab: l2 == lab, b, exclude):
                continue
            # any may-U node strictly between this edge and b?
            after = S.reachable(s, exclude=exclude)
            stale = False
            for m in mayu:
                if m.idx in after and b.idx in S.reachable(m, exclude=exclude):
                    stale = True
                    break
            if stale:
                continue
            for lit in normalise_literal(e, lab[1], n.term):
                res.add(lit)
    return res


PURE_GETTERS = set()  # filled by rules.common with the crate's getter table


def _mentions_sub(e):
    """phi/undef nodes that belong to a value-only sub context (id -1): the summary would be meaningless."""
    if isinstance(e, tuple):
        if e and e[0] in ("phi", "undef", "var") and len(e) > 1 and e[1] == -1:
            return True
        return any(_mentions_sub(x) for x in e)
    return False


def _mentions(e, heads):
    if isinstance(e, tuple):
        if e and e[0] in heads:
            return True
        return any(_mentions(x, heads) for x in e)
    return False


NEG = {"Eq": "Ne", "Ne": "Eq", "Lt": "Ge", "Ge": "Lt", "Gt": "Le", "Le": "Gt"}
SWAP = {"Eq": "Eq", "Ne": "Ne", "Lt": "Gt", "Gt": "Lt", "Le": "Ge", "Ge": "Le"}


def normalise_literal(e, val, term):
    """Turn (switch expr, edge value) into canonical literals [(atom, truth)].
    atom forms: ('cmp', op, a, b) with canonical operand order; ('bool', expr); ('discr', expr, value)."""
    out = []
    if isinstance(e, tuple) and e and e[0] == "discr" and [v for v, _ in term["targets"]] == [0]:
        # two-way switch on a discriminant: keep it a discriminant literal, not a boolean
        return _lit_of(e, ("not", 0) if val == "otherwise" else ("is", 0))
    if val == "otherwise":
        vals = [v for v, _ in term["targets"]]
        if vals == [0]:
            truth = True
        elif len(vals) == 1:
            # `otherwise` of a single-valued switch on a discriminant: "not that value"
            out.extend(_lit_of(e, ("not", vals[0])))
            return out
        else:
            out.extend(_lit_of(e, ("notin", tuple(vals))))
            return out
    else:
        vals = [v for v, _ in term["targets"]]
        if vals == [0]:
            truth = False
        else:
            out.extend(_lit_of(e, ("is", val)))
            return out
    out.extend(_lit_bool(e, truth))
    return out


def _lit_of(e, what):
    if isinstance(e, tuple) and e and e[0] == "discr":
        return [(("discr", e[1]), what)]
    return [(("val", e), what)]


def _lit_bool(e, truth):
    if isinstance(e, tuple) and e:
        if e[0] == "un" and e[1] == "Not":
            return _lit_bool(e[2], not truth)
        if e[0] == "bin" and e[1] in NEG:
            op, a, b = e[1], e[2], e[3]
            if not truth:
                if len(e) > 4 and e[4] == "float":
                    # floats: not(a <= b) is not (a > b) when a NaN is involved; keep the polarity
                    return [(("cmp", op, a, b), False)]
                op = NEG[op]
            # canonical operand order: constants to the right, else lexicographic by repr
            if (a[0] == "const" and b[0] != "const") or (a[0] != "const" and b[0] != "const" and repr(a) > repr(b)):
                a, b = b, a
                op = SWAP[op]
            # canonical operator: Lt/Le expressed as Gt/Ge with swapped operands? keep op but unify Ne/Eq polarity
            if op == "Ne":
                return [(("cmp", "Eq", a, b), False)]
            return [(("cmp", op, a, b), True)]
        if e[0] == "bin" and e[1] in ("BitAnd", "BitOr") and False:
            pass
    return [(("bool", e), truth)]


def _is_float(e):
    return _mentions(e, ("float",))
