"""Compile-fail witnesses: probe files type-checked by rustc against the rlib built from /repo's current tree.
A witness passes only if (a) the probe fails with exactly the expected error code and the primary span is on the
marked line, and (b) its twin - the same file with only that line replaced - compiles. The type checker is the
decision procedure; nothing of /repo is executed."""
import hashlib
import json
import os
import shutil
import subprocess
import tempfile

from . import build

MARK = "//~"


def _lib_dir(features, repo=None):
    d = os.path.join(build.facts_dir(repo), "wlib-" + "_".join(features))
    return d


def ensure_libs(features=("std", "auto-collect", "finalization", "derive", "weak-ptrs", "cleaners"), repo=None):
    """Build rust_cc (+ derive) once per tree hash; keep only the few artefacts the probes link against."""
    repo = repo or build.REPO
    d = _lib_dir(features, repo)
    with build.Lock(os.path.join(build.CACHE, "lock-w-" + os.path.basename(os.path.dirname(d)))):
        if os.path.exists(os.path.join(d, "ok")) and os.environ.get("VERIF_NO_CACHE") != "1":
            return d, None
        tmp = tempfile.mkdtemp(prefix="ccwit-")
        try:
            env = dict(os.environ)
            env["CARGO_TARGET_DIR"] = os.path.join(tmp, "t")
            env["CARGO_NET_OFFLINE"] = "true"
            env["RUSTFLAGS"] = "-Awarnings"
            env.pop("RUSTC_WORKSPACE_WRAPPER", None)
            # metadata only: the probes are type-checked (`--emit=metadata`), never linked or run
            from . import depcache
            flavor = "wit-" + ",".join(sorted(features))
            depcache.seed(os.path.join(tmp, "t"), repo, flavor)
            r = subprocess.run(["cargo", "+nightly", "check", "--offline", "--lib", "--no-default-features", "-F", ",".join(features)],
                               cwd=repo, env=env, stdout=subprocess.PIPE, stderr=subprocess.STDOUT, text=True)
            if r.returncode != 0:
                return None, r.stdout[-3000:]
            depcache.save(os.path.join(tmp, "t"), repo, flavor)
            deps = os.path.join(tmp, "t", "debug", "deps")
            shutil.rmtree(d, ignore_errors=True)
            os.makedirs(d)
            for f in os.listdir(deps):
                if f.endswith((".rlib", ".rmeta", ".so")):
                    shutil.copy2(os.path.join(deps, f), os.path.join(d, f))
            open(os.path.join(d, "ok"), "w").write("ok")
            return d, None
        finally:
            shutil.rmtree(tmp, ignore_errors=True)


def _extern_args(d):
    args = ["-L", "dependency=" + d]
    for f in sorted(os.listdir(d)):
        if f.startswith("librust_cc-") and f.endswith(".rmeta"):
            args += ["--extern", "rust_cc=" + os.path.join(d, f)]
        if f.startswith("librust_cc_derive-") and f.endswith(".so"):
            args += ["--extern", "rust_cc_derive=" + os.path.join(d, f)]
    return args


def compile_probe(src, d, crate_type="lib"):
    """Type-check one probe. Returns (success, [(code, line, message)])."""
    tmp = tempfile.mkdtemp(prefix="ccprobe-")
    try:
        p = os.path.join(tmp, "probe.rs")
        with open(p, "w") as fh:
            fh.write(src)
        cmd = ["rustc", "+nightly", "--edition", "2021", "--crate-type", crate_type, "--emit=metadata", "--error-format=json", "-Awarnings",
               "-o", os.path.join(tmp, "out.rmeta"), p] + _extern_args(d)
        r = subprocess.run(cmd, stdout=subprocess.PIPE, stderr=subprocess.PIPE, text=True)
        errs = []
        for line in r.stderr.splitlines():
            try:
                m = json.loads(line)
            except ValueError:
                continue
            if m.get("level") == "error":
                code = (m.get("code") or {}).get("code")
                ln = None
                for sp in m.get("spans", []):
                    if sp.get("is_primary") and sp.get("file_name", "").endswith("probe.rs"):
                        ln = sp.get("line_start")
                    # errors reported inside a macro expansion: walk to the probe's call site
                    e = sp.get("expansion")
                    while ln is None and e:
                        s2 = e.get("span", {})
                        if s2.get("file_name", "").endswith("probe.rs"):
                            ln = s2.get("line_start")
                        e = s2.get("expansion")
                if code is None and ln is None and m.get("message", "").startswith("aborting due to"):
                    continue
                errs.append((code, ln, m.get("message", "")[:200]))
        return r.returncode == 0, errs
    finally:
        shutil.rmtree(tmp, ignore_errors=True)


class Witness:
    """`template` contains one line ending in `//~ E0xxx`; `twin_line` replaces that line in the compiling twin."""

    def __init__(self, name, template, twin_line, what):
        self.name = name
        self.template = template
        self.twin_line = twin_line
        self.what = what
        self.code = None
        self.line = None
        lines = template.split("\n")
        for i, l in enumerate(lines):
            if MARK in l:
                self.code = l.split(MARK)[1].strip().split()[0]
                self.line = i + 1
        assert self.code, "witness %s has no marked line" % name

    def twin(self):
        lines = self.template.split("\n")
        lines[self.line - 1] = self.twin_line
        return "\n".join(lines)

    def run(self, d):
        ok_bad, errs = compile_probe(self.template, d)
        if ok_bad:
            return False, "the violating program COMPILES (expected %s on line %d): %s is not enforced by the type checker" % (self.code, self.line, self.what)
        hit = [e for e in errs if e[0] == self.code and e[1] == self.line]
        if not hit:
            return False, "the probe fails, but not with %s on the marked line %d; errors: %s" % (self.code, self.line, errs[:3])
        others = [e for e in errs if not (e[1] == self.line)]
        if others:
            return False, "the probe has errors on other lines (the witness would pass for the wrong reason): %s" % others[:3]
        ok_twin, errs2 = compile_probe(self.twin(), d)
        if not ok_twin:
            return False, "the twin (only the marked line replaced) does not compile: %s" % errs2[:3]
        return True, "%s on the marked line; twin compiles" % self.code
