// F2 (C14/C07): Cc::new_cyclic hands the still-uninitialised wrapper to Cc::new; when the automatic
// collection started by Cc::new panics, the wrapper is dropped and its destructor drops a T that was
// never constructed. Needs feature weak-ptrs. Fails on the pinned tree, passes with the fix.
#![cfg(feature = "weak-ptrs")]
use std::cell::{Cell, RefCell};
use std::panic::{catch_unwind, AssertUnwindSafe};

use rust_cc::*;

thread_local! {
    static DROPS_OF_PAYLOAD: Cell<usize> = Cell::new(0);
    static CLOSURE_RAN: Cell<bool> = Cell::new(false);
}

struct Payload {
    canary: u64,
    data: Vec<u8>,
}
unsafe impl Trace for Payload {
    fn trace(&self, _: &mut Context<'_>) {}
}
impl Finalize for Payload {}
impl Drop for Payload {
    fn drop(&mut self) {
        // reading fields of a never-constructed value is what the bug allows; just count
        DROPS_OF_PAYLOAD.with(|c| c.set(c.get() + 1));
        let _ = (self.canary, self.data.len());
    }
}

struct PanicsOnTrace {
    next: RefCell<Option<Cc<PanicsOnTrace>>>,
}
unsafe impl Trace for PanicsOnTrace {
    fn trace(&self, _: &mut Context<'_>) {
        panic!("trace panics");
    }
}
impl Finalize for PanicsOnTrace {}

#[test]
fn f2_new_cyclic_never_touches_an_unwritten_value() {
    // buffer an object whose trace panics, then make an automatic collection due
    rust_cc::config::config(|c| c.set_auto_collect(false)).unwrap();
    let p = Cc::new(PanicsOnTrace { next: RefCell::new(None) });
    let _keep: Vec<Cc<Vec<u8>>> = (0..8).map(|_| Cc::new(vec![0u8; 64])).collect(); // > 100 bytes allocated
    drop(p.clone()); // p is buffered
    let bytes_before = state::allocated_bytes().unwrap();
    rust_cc::config::config(|c| c.set_auto_collect(true)).unwrap();

    let r = catch_unwind(AssertUnwindSafe(|| {
        Cc::<Payload>::new_cyclic(|_w| {
            CLOSURE_RAN.with(|c| c.set(true));
            Payload { canary: 0xC0FFEE, data: vec![1, 2, 3] }
        })
    }));
    rust_cc::config::config(|c| c.set_auto_collect(false)).unwrap();

    assert!(r.is_err(), "the automatic collection must have panicked");
    assert!(!CLOSURE_RAN.with(|c| c.get()), "the closure must not have run");
    assert_eq!(DROPS_OF_PAYLOAD.with(|c| c.get()), 0, "a Payload that was never constructed has been dropped");
    assert_eq!(state::allocated_bytes().unwrap(), bytes_before, "memory of the half-built object must be released");
    assert!(!state::is_tracing().unwrap());
}
