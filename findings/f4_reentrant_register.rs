// F4 (C10): Cleaner::register keeps a `&mut` to its slot (obtained from an UnsafeCell) across Cc::new, which may
// run an automatic collection; a finalizer of that collection registering on the *same* Cleaner gets its map
// overwritten when the outer call resumes, so its cleaning action runs at once although the Cleaner is alive and
// nobody called clean(). Needs feature cleaners. Fails on the pinned tree, passes with the fix.
#![cfg(feature = "cleaners")]
use std::cell::{Cell, RefCell};
use std::rc::Rc;

use rust_cc::cleaners::{Cleanable, Cleaner};
use rust_cc::*;

thread_local! {
    static CLEANER: Rc<Cleaner> = Rc::new(Cleaner::new());
    static INNER_RAN: Cell<bool> = Cell::new(false);
    static OUTER_RAN: Cell<bool> = Cell::new(false);
    static INNER_CLEANABLE: RefCell<Option<Cleanable>> = RefCell::new(None);
}

struct RegistersInFinalizer {
    _pad: [u8; 256],
    next: RefCell<Option<Cc<RegistersInFinalizer>>>,
}
unsafe impl Trace for RegistersInFinalizer {
    fn trace(&self, ctx: &mut Context<'_>) {
        self.next.trace(ctx);
    }
}
impl Finalize for RegistersInFinalizer {
    fn finalize(&self) {
        let c = CLEANER.with(|c| c.clone());
        let cleanable = c.register(|| INNER_RAN.with(|r| r.set(true)));
        INNER_CLEANABLE.with(|s| *s.borrow_mut() = Some(cleanable));
    }
}

#[test]
fn f4_action_registered_reentrantly_runs_only_when_the_cleaner_is_dropped() {
    rust_cc::config::config(|c| c.set_auto_collect(false)).unwrap();
    // a garbage self-cycle, buffered, big enough to make an automatic collection due
    {
        let a = Cc::new(RegistersInFinalizer { _pad: [0; 256], next: RefCell::new(None) });
        *a.next.borrow_mut() = Some(a.clone());
    }
    assert!(state::buffered_objects_count().unwrap() >= 1);
    rust_cc::config::config(|c| c.set_auto_collect(true)).unwrap();

    let cleaner = CLEANER.with(|c| c.clone());
    // first registration on this cleaner: allocates its map with Cc::new -> automatic collection -> finalizer -> register (re-entrant)
    let _outer = cleaner.register(|| OUTER_RAN.with(|r| r.set(true)));
    rust_cc::config::config(|c| c.set_auto_collect(false)).unwrap();

    assert!(INNER_CLEANABLE.with(|s| s.borrow().is_some()), "the finalizer must have registered its action");
    assert!(!INNER_RAN.with(|r| r.get()), "the re-entrantly registered action ran although the Cleaner is alive and clean() was never called");
    assert!(!OUTER_RAN.with(|r| r.get()));
}
