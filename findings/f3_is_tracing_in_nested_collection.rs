// F3 (C12): a collection started from a finalizer (or destructor) run by a plain Cc::drop calls
// Trace::trace while state::is_tracing() is false.
// Fails on the pinned tree, passes with the fix.
use std::cell::{Cell, RefCell};

use rust_cc::*;

thread_local! {
    static TRACE_CALLS: Cell<usize> = Cell::new(0);
    static NOT_TRACING_IN_TRACE: Cell<usize> = Cell::new(0);
    static TRACING_IN_FINALIZE_OR_DROP: Cell<usize> = Cell::new(0);
}

struct Cyc {
    next: RefCell<Option<Cc<Cyc>>>,
}

unsafe impl Trace for Cyc {
    fn trace(&self, ctx: &mut Context<'_>) {
        TRACE_CALLS.with(|c| c.set(c.get() + 1));
        if !state::is_tracing().unwrap() {
            NOT_TRACING_IN_TRACE.with(|c| c.set(c.get() + 1));
        }
        self.next.trace(ctx);
    }
}
impl Finalize for Cyc {}

struct CollectInFinalizer;
unsafe impl Trace for CollectInFinalizer {
    fn trace(&self, _: &mut Context<'_>) {}
}
impl Finalize for CollectInFinalizer {
    fn finalize(&self) {
        if state::is_tracing().unwrap() {
            TRACING_IN_FINALIZE_OR_DROP.with(|c| c.set(c.get() + 1));
        }
        collect_cycles();
        if state::is_tracing().unwrap() {
            TRACING_IN_FINALIZE_OR_DROP.with(|c| c.set(c.get() + 1));
        }
    }
}

struct CollectInDrop;
unsafe impl Trace for CollectInDrop {
    fn trace(&self, _: &mut Context<'_>) {}
}
impl Finalize for CollectInDrop {}
impl Drop for CollectInDrop {
    fn drop(&mut self) {
        collect_cycles();
        if state::is_tracing().unwrap() {
            TRACING_IN_FINALIZE_OR_DROP.with(|c| c.set(c.get() + 1));
        }
    }
}

fn make_buffered_garbage_cycle() {
    let a = Cc::new(Cyc { next: RefCell::new(None) });
    let b = Cc::new(Cyc { next: RefCell::new(Some(a.clone())) });
    *a.next.borrow_mut() = Some(b);
}

#[test]
fn f3_is_tracing_is_true_in_collections_started_from_callbacks_of_a_plain_drop() {
    rust_cc::config::config(|c| c.set_auto_collect(false)).unwrap();

    make_buffered_garbage_cycle();
    let before = state::executions_count().unwrap();
    drop(Cc::new(CollectInFinalizer)); // plain reference-count drop -> finalizer -> collect_cycles()
    assert_eq!(state::executions_count().unwrap(), before + 1, "the nested collection did run");
    assert!(TRACE_CALLS.with(|c| c.get()) > 0);

    make_buffered_garbage_cycle();
    drop(Cc::new(CollectInDrop)); // plain drop -> destructor -> collect_cycles()
    assert_eq!(state::executions_count().unwrap(), before + 2);

    assert_eq!(NOT_TRACING_IN_TRACE.with(|c| c.get()), 0, "Trace::trace was called while is_tracing() == false");
    assert_eq!(TRACING_IN_FINALIZE_OR_DROP.with(|c| c.get()), 0, "is_tracing() == true inside a finalizer/destructor");
    assert!(!state::is_tracing().unwrap());
}
