// F1 (C01/C05/C07): a collection that unwinds leaves buffered objects with a non-zero tracing counter;
// the next collection then takes a live object for garbage.
// Fails on the pinned tree (finalizers run on objects the program still holds), passes with the fix.
use std::cell::{Cell, RefCell};
use std::panic::{catch_unwind, AssertUnwindSafe};

use rust_cc::*;

thread_local! {
    static PANIC_ON_TRACE: Cell<bool> = Cell::new(false);
    static FINALIZED: RefCell<Vec<&'static str>> = RefCell::new(Vec::new());
}

struct Node {
    name: &'static str,
    next: RefCell<Option<Cc<Node>>>,
}

unsafe impl Trace for Node {
    fn trace(&self, ctx: &mut Context<'_>) {
        if self.name == "P" && PANIC_ON_TRACE.with(|p| p.get()) {
            panic!("trace of P panics");
        }
        self.next.trace(ctx);
    }
}

impl Finalize for Node {
    fn finalize(&self) {
        FINALIZED.with(|f| f.borrow_mut().push(self.name));
    }
}

fn node(name: &'static str) -> Cc<Node> {
    Cc::new(Node { name, next: RefCell::new(None) })
}

#[test]
fn f1_live_object_survives_collection_after_unwound_collection() {
    rust_cc::config::config(|c| c.set_auto_collect(false)).unwrap();

    let a = node("A");
    {
        let b = node("B");
        *a.next.borrow_mut() = Some(b.clone());
        *b.next.borrow_mut() = Some(a.clone());
    } // cycle A <-> B, the program keeps `a`
    collect_cycles(); // empty the buffer
    let p = node("P");

    // buffer A, then P, then B (the buffer is LIFO: B is visited first, then P, then A)
    drop(a.clone());
    drop(p.clone());
    drop(a.next.borrow().as_ref().unwrap().clone());

    PANIC_ON_TRACE.with(|p| p.set(true));
    let r = catch_unwind(AssertUnwindSafe(|| collect_cycles()));
    assert!(r.is_err(), "the collection must have unwound");
    PANIC_ON_TRACE.with(|p| p.set(false));
    assert!(!state::is_tracing().unwrap());

    // buffer B again; A is still buffered from before
    drop(a.next.borrow().as_ref().unwrap().clone());
    collect_cycles();

    // `a` is held by the program: neither A nor B may have been finalized or freed
    let finalized = FINALIZED.with(|f| f.borrow().clone());
    assert!(finalized.is_empty(), "finalizers ran on live objects: {:?}", finalized);
    assert_eq!(a.name, "A");
    assert_eq!(a.next.borrow().as_ref().unwrap().name, "B");
    assert_eq!(Cc::strong_count(&a), 2);

    // and once released the cycle is still collected
    drop(p);
    drop(a);
    collect_cycles();
    let finalized = FINALIZED.with(|f| f.borrow().clone());
    assert!(finalized.contains(&"A") && finalized.contains(&"B"), "garbage cycle not reclaimed: {:?}", finalized);
}
