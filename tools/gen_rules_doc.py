#!/usr/bin/env python3
"""Regenerate the 'rules as built' appendix of DESIGN.md from the rule documentation strings recorded in evidence/*.json."""
import glob
import json
import os
import re

HERE = os.path.dirname(os.path.dirname(os.path.abspath(__file__)))
out = ["## Appendix D — rules as built (generated from the checks' own documentation strings by tools/gen_rules_doc.py)", "",
       "Per property: rule id, number of instances evaluated in the quick tier on the current tree, and the rule as the check states it. "
       "Rules marked *shared* are owned by another property and evaluated by this check as well (§10.4).", ""]
for f in sorted(glob.glob(os.path.join(HERE, "evidence", "C*.json"))):
    e = json.load(open(f))
    out.append("**%s** (%s; %d instances, %d distinct)" % (e["property_id"], e["level"], e["coverage"]["evaluations"], e["coverage"]["distinct_nontrivial"]))
    out.append("")
    for r, v in sorted(e["coverage"]["per_rule"].items(), key=lambda kv: [int(x) if x.isdigit() else x for x in re.split(r"(\d+)", kv[0])]):
        if "/" in r:
            continue
        doc = v.get("doc") or ""
        shared = "shared rule" in doc
        doc = doc.replace("  [shared rule, owned by", " *[shared, owned by").replace("]", "]*") if shared else doc
        out.append("* `%s` (%d): %s" % (r, v["instances"], doc or "(see rules/%s.py)" % e["property_id"].lower()))
    out.append("")
text = "\n".join(out) + "\n"
p = os.path.join(HERE, "DESIGN.md")
s = open(p).read()
m0 = "<!-- RULES-AS-BUILT:BEGIN -->"
m1 = "<!-- RULES-AS-BUILT:END -->"
if m0 in s:
    s = s[:s.index(m0) + len(m0)] + "\n" + text + s[s.index(m1):]
else:
    s = s.rstrip("\n") + "\n\n---\n\n" + m0 + "\n" + text + m1 + "\n"
open(p, "w").write(s)
print("appendix D written: %d lines" % len(out))
