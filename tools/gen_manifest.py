#!/usr/bin/env python3
"""Regenerate MANIFEST.json from rules/*.py metadata (LEVEL, EXPLANATION, TECHNIQUE, LEVEL_NOTE, DESIGN_REF)."""
import importlib
import json
import os
import sys

HERE = os.path.dirname(os.path.dirname(os.path.abspath(__file__)))
sys.path.insert(0, HERE)
props = [json.loads(l) for l in open(os.path.join(HERE, "properties.jsonl"))]
checks = []
na = []
for p in props:
    pid = p["id"]
    try:
        mod = importlib.import_module("rules." + pid.lower())
    except ModuleNotFoundError:
        na.append({"property_id": pid, "reason": "static rules for this property are designed (DESIGN.md section 4) but not implemented yet; no claim is made"})
        continue
    if getattr(mod, "NOT_APPLICABLE", None):
        na.append({"property_id": pid, "reason": mod.NOT_APPLICABLE})
        continue
    checks.append({
        "property_id": pid,
        "quick_cmd": "./vf check %s --tier quick" % pid,
        "thorough_cmd": "./vf check %s --tier thorough" % pid,
        "evidence_file": "/verif/evidence/%s.json" % pid,
        "replay_cmd_template": "cat {path}",
        "engine": "ccfacts+rules",
        "level_claimed": {"category": mod.LEVEL, "text": mod.EXPLANATION, "design_ref": "DESIGN.md section 4, %s" % pid},
        "level_note": getattr(mod, "LEVEL_NOTE", "Trusted: rustc's MIR construction and trait resolution (facts are read from the compiler, opt-level 0), the driver's fact extraction, the rule engine; user Trace impls are assumed to obey the Trace contract. Decides structural necessary conditions, not the behaviour over all histories."),
        "technique": getattr(mod, "TECHNIQUE", "static analysis: custom MIR rules (rustc_private driver facts; dominators, path enumeration, decision tables, provenance)"),
    })
m = {
    "version": 1,
    "setup_cmd": "./vf setup",
    "hooks": {"guard": "frengor_rust_cc_verif", "enable": "none needed: the analyses read unmodified sources (no hook commits)",
              "baseline_off_cmd": "cd /repo && cargo test --workspace --no-fail-fast --offline", "source_commits": [], "add_only": True},
    "engines": [
        {"name": "ccfacts", "path": "driver/", "serves_properties": [c["property_id"] for c in checks], "kind_free_text": "rustc_private driver dumping type-checked MIR facts (resolved callees, drop trees, ADTs, impls, statics, evaluated constants) of /repo's current tree as JSON"},
        {"name": "rules", "path": "engine/ rules/", "serves_properties": [c["property_id"] for c in checks], "kind_free_text": "python rule engine over the facts: inlined supergraph, user-callback sites, dominators, path enumeration, decision tables, provenance, phase-flag abstract interpretation, unwind-path analysis; compile-fail witnesses"},
    ],
    "checks": checks,
    "not_applicable": na,
    "notes": "Technique family: static analysis only. Nothing of /repo is executed by any check. See DESIGN.md.",
}
json.dump(m, open(os.path.join(HERE, "MANIFEST.json"), "w"), indent=1)
print("MANIFEST.json: %d checks, %d not_applicable" % (len(checks), len(na)))
