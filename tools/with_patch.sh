#!/bin/bash
# usage: tools/with_patch.sh <patch-file> <command...>   (command runs with VERIF_REPO pointing at a scratch copy of /repo with the patch applied)
set -e
PATCH=$(readlink -f "$1"); shift
T=$(mktemp -d /tmp/vfscratch.XXXXXX)
trap 'rm -rf "$T"' EXIT
mkdir -p "$T/repo"
(cd /repo && git ls-files -z | xargs -0 cp --parents -t "$T/repo" && cp Cargo.lock "$T/repo/" 2>/dev/null || true)
(cd "$T/repo" && patch -p1 -s < "$PATCH")
cd /verif
VERIF_REPO="$T/repo" "$@"
