#!/bin/bash
# confirm one delivered seed of a round: eval_round.sh <round-dir> <PID> <seed-id>   (confirmation only; checks via recheck_seeds.py)
set -u
d="$1/out/$2"; sid="$3"
[ -f "$d/patch.diff" ] && [ -f "$d/demo.rs" ] || { echo "$sid: not delivered"; exit 2; }
feats="$(head -1 "$d/features.txt" 2>/dev/null || echo '-F weak-ptrs,cleaners')"
needs="$(tr '\n' ' ' < "$d/needs.txt" 2>/dev/null)"
tgt="$(mktemp -d /tmp/seed_target_XXXX)"
EVAL_SEED_CONFIRM_ONLY=1 EVAL_SEED_TARGET="$tgt" python3 /verif/tools/eval_seed.py "$sid" "$d/patch.diff" "$d/demo.rs" "$2" "$needs" "$feats"
rc=$?
rm -rf "$tgt"
exit $rc
