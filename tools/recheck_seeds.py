#!/usr/bin/env python3
"""Re-run every quick check against every stored seeded change with the current engine and refresh meta.json's
checks_fired / caught / caught_by_own_property. For speed the changes are applied to scratch copies of /repo's HEAD
(VERIF_REPO=<copy>), several at a time; the first confirmation of each seed (tools/eval_seed.py) applied it to /repo itself.
usage: recheck_seeds.py [-j N] [id-substring ...]"""
import json, os, re, shutil, subprocess, sys, tempfile
from concurrent.futures import ThreadPoolExecutor

VERIF = "/verif"


def one(sid):
    d = os.path.join(VERIF, "seeded", sid)
    meta = json.load(open(os.path.join(d, "meta.json")))
    t = tempfile.mkdtemp(prefix="seedrc-")
    try:
        dst = os.path.join(t, "repo")
        os.makedirs(dst)
        files = subprocess.check_output(["git", "-C", "/repo", "ls-files"], text=True).split("\n") + ["Cargo.lock"]
        for f in files:
            if f and os.path.exists(os.path.join("/repo", f)):
                os.makedirs(os.path.dirname(os.path.join(dst, f)), exist_ok=True)
                shutil.copy2(os.path.join("/repo", f), os.path.join(dst, f))
        r = subprocess.run(["patch", "-p1", "-s", "-i", os.path.join(d, "patch.diff")], cwd=dst, stdout=subprocess.PIPE, stderr=subprocess.STDOUT, text=True)
        if r.returncode != 0:
            return sid, None, "patch does not apply: " + r.stdout[-200:]
        env = dict(os.environ, VERIF_REPO=dst, VERIF_EVIDENCE_DIR=os.path.join(t, "ev"), CARGO_NET_OFFLINE="true")
        pr = subprocess.run([os.path.join(VERIF, "vf"), "all", "--tier", "quick"], cwd=VERIF, env=env, stdout=subprocess.PIPE, stderr=subprocess.STDOUT, text=True)
        out = pr.stdout
        if pr.returncode not in (0, 1) or out.count("[quick]:") < 20:
            return sid, None, "vf all did not complete (exit %d):\n%s" % (pr.returncode, "\n".join(out.splitlines()[-15:]))
    finally:
        shutil.rmtree(t, ignore_errors=True)
    fired, cur = [], None
    for l in out.splitlines():
        m = re.match(r"VIOLATION property=(C\d+)", l)
        if m:
            cur = m.group(1)
        m2 = re.match(r"\s+rule=(\S+) key=(.*)", l)
        if m2 and cur:
            fired.append("%s %s %s" % (cur, m2.group(1), m2.group(2)))
    fired = sorted(set(fired))
    meta["checks_fired"] = fired
    meta["caught"] = bool(fired)
    meta["caught_by_own_property"] = any(f.startswith(meta["property"] + " ") for f in fired)
    meta["analysis_errors"] = sorted({f for f in fired if " analysis-error " in f or " anchor-missing " in f})
    meta["ran"] = [r_ for r_ in meta["ran"] if not r_.startswith(("git -C /repo apply", "recheck:"))] + ["recheck: patch applied to a scratch copy of /repo, ./vf all --tier quick with VERIF_REPO=<copy> -> %d distinct rule instance(s) fire" % len(fired)]
    json.dump(meta, open(os.path.join(d, "meta.json"), "w"), indent=1)
    return sid, meta, ""


def main():
    args = sys.argv[1:]
    jobs = 4
    if args and args[0] == "-j":
        jobs = int(args[1]); args = args[2:]
    ids = sorted(x for x in os.listdir(os.path.join(VERIF, "seeded")) if os.path.isdir(os.path.join(VERIF, "seeded", x)))
    if args:
        ids = [i for i in ids if any(a in i for a in args)]
    bad = 0
    with ThreadPoolExecutor(max_workers=jobs) as ex:
        for sid, meta, err in ex.map(one, ids):
            if meta is None:
                print(sid, "ERROR", err); bad += 1; continue
            own = [f for f in meta["checks_fired"] if f.startswith(meta["property"] + " ")]
            st = "caught" if meta["caught_by_own_property"] else ("OTHER-ONLY" if meta["caught"] else "MISSED")
            if st != "caught" or meta["analysis_errors"]:
                bad += 1
            print(sid, st, "errors:%d" % len(meta["analysis_errors"]), own[:2], flush=True)
    print("recheck: %d seeds, %d needing attention" % (len(ids), bad))
    return 1 if bad else 0


if __name__ == "__main__":
    sys.exit(main())
