#!/usr/bin/env python3
"""Evaluate one independently written seeded change: confirm it (demo fails with / passes without; pinned tests pass with),
run every check against it, and store it under /verif/seeded/<id>/ with meta.json.
usage: eval_seed.py <seed-id> <patch.diff> <demo.rs> <property> "<what it needs>" """
import json
import os
import re
import shutil
import subprocess
import sys
import tempfile

VERIF = "/verif"


def sh(cmd, cwd=None, env=None, timeout=3600):
    e = dict(os.environ)
    e["CARGO_NET_OFFLINE"] = "true"
    if cwd and cwd.startswith("/tmp/seedwt-"):
        e["CARGO_TARGET_DIR"] = os.environ.get("EVAL_SEED_TARGET", "/tmp/seed_target")
    if env:
        e.update(env)
    r = subprocess.run(cmd, shell=True, cwd=cwd, env=e, stdout=subprocess.PIPE, stderr=subprocess.STDOUT, text=True, timeout=timeout)
    return r.returncode, r.stdout


def run_checks(patch):
    ev = tempfile.mkdtemp(prefix="seedev-")
    try:
        rc, out = sh("git -C /repo apply %s" % patch)
        assert rc == 0, out
        rc, out = sh("./vf all --tier quick", cwd=VERIF, env={"VERIF_EVIDENCE_DIR": ev})
    finally:
        sh("git -C /repo checkout -- .")
        shutil.rmtree(ev, ignore_errors=True)
    fired = []
    cur = None
    for l in out.splitlines():
        m = re.match(r"VIOLATION property=(C\d+)", l)
        if m:
            cur = m.group(1)
        m2 = re.match(r"\s+rule=(\S+) key=(.*)", l)
        if m2 and cur:
            fired.append("%s %s %s" % (cur, m2.group(1), m2.group(2)))
    return fired


def recheck(sid):
    d = os.path.join(VERIF, "seeded", sid)
    meta = json.load(open(os.path.join(d, "meta.json")))
    fired = run_checks(os.path.join(d, "patch.diff"))
    meta["checks_fired"] = fired
    meta["caught"] = bool(fired)
    meta["caught_by_own_property"] = any(f.startswith(meta["property"] + " ") for f in fired)
    meta["ran"] = [r for r in meta["ran"] if not r.startswith("git -C /repo apply")] + ["git -C /repo apply <patch>; ./vf all --tier quick; git -C /repo checkout -- .  -> %d violation(s) (re-run after the checks were strengthened)" % len(fired)]
    json.dump(meta, open(os.path.join(d, "meta.json"), "w"), indent=1)
    print(sid, "caught" if fired else "MISSED", "own:", meta["caught_by_own_property"], [f for f in fired if f.startswith(meta["property"] + " ")][:3])
    return 0


def main():
    if sys.argv[1] == "--recheck":
        return recheck(sys.argv[2])
    sid, patch, demo, prop, needs = sys.argv[1:6]
    patch = os.path.abspath(patch)
    demo = os.path.abspath(demo)
    wt = tempfile.mkdtemp(prefix="seedwt-")
    os.rmdir(wt)
    meta = {"id": sid, "property": prop, "needs_to_manifest": needs, "ran": []}
    try:
        rc, out = sh("git -C /repo worktree add -q --detach %s HEAD && cp /repo/Cargo.lock %s/" % (wt, wt))
        assert rc == 0, out
        rc, out = sh("git apply --check %s && git apply %s" % (patch, patch), cwd=wt)
        meta["patch_applies"] = rc == 0
        if rc != 0:
            print("PATCH DOES NOT APPLY", out)
            return 2
        shutil.copy2(demo, os.path.join(wt, "tests", "zz_seed_demo.rs"))
        feats = sys.argv[6] if len(sys.argv) > 6 else "-F weak-ptrs,cleaners"
        rc_with, out_with = sh("cargo test --offline --test zz_seed_demo %s 2>&1 | tail -40" % feats, cwd=wt)
        fails_with = ("test result: FAILED" in out_with) or ("SIGABRT" in out_with) or ("SIGSEGV" in out_with) or ("process didn't exit successfully" in out_with)
        meta["ran"].append("cargo test --offline --test zz_seed_demo %s  (with the change): %s" % (feats, "FAILS" if fails_with else "passes"))
        os.remove(os.path.join(wt, "tests", "zz_seed_demo.rs"))
        rc_suite, out_suite = sh("cargo test --offline --lib --test cc --test auto_collect 2>&1 | grep -E '^test result|FAILED|error' ; cargo test --offline --lib -F weak-ptrs,cleaners 2>&1 | grep -E '^test result|FAILED|error'", cwd=wt)
        suite_ok = "FAILED" not in out_suite and not re.search(r"(?m)^error", out_suite) and out_suite.count("test result: ok") >= 4
        meta["ran"].append("cargo test --offline --lib --test cc --test auto_collect; cargo test --offline --lib -F weak-ptrs,cleaners (with the change; macro_tests fails in the baseline and is skipped): %s" % ("pass" if suite_ok else "FAIL: " + out_suite[-300:]))
        sh("git checkout -- src derive", cwd=wt)
        shutil.copy2(demo, os.path.join(wt, "tests", "zz_seed_demo.rs"))
        rc_wo, out_wo = sh("cargo test --offline --test zz_seed_demo %s 2>&1 | tail -15" % feats, cwd=wt)
        passes_without = "test result: ok" in out_wo and "FAILED" not in out_wo
        meta["ran"].append("same demo on the unchanged tree: %s" % ("passes" if passes_without else "FAILS"))
        meta["confirmed"] = bool(fails_with and passes_without and suite_ok)
        print("confirmed=%s  demo fails with=%s  passes without=%s  suite ok=%s" % (meta["confirmed"], fails_with, passes_without, suite_ok))
        if not fails_with:
            print(out_with[-1500:])
        if not passes_without:
            print(out_wo[-800:])
    finally:
        sh("git -C /repo worktree remove --force %s" % wt)
        shutil.rmtree(wt, ignore_errors=True)
    if os.environ.get("EVAL_SEED_CONFIRM_ONLY"):
        # confirmation only (several seeds at a time); the checks are then run by tools/recheck_seeds.py on scratch copies
        meta["checks_fired"] = []
        meta["caught"] = False
        meta["caught_by_own_property"] = False
        if meta.get("confirmed"):
            d = os.path.join(VERIF, "seeded", sid)
            os.makedirs(d, exist_ok=True)
            shutil.copy2(patch, os.path.join(d, "patch.diff"))
            shutil.copy2(demo, os.path.join(d, "demo.rs"))
            json.dump(meta, open(os.path.join(d, "meta.json"), "w"), indent=1)
            print("stored (checks pending)", d)
        return 0
    # the checks, the prescribed way: apply to /repo, run, undo
    ev = tempfile.mkdtemp(prefix="seedev-")
    try:
        rc, out = sh("git -C /repo apply %s" % patch)
        assert rc == 0, out
        rc, out = sh("./vf all --tier quick", cwd=VERIF, env={"VERIF_EVIDENCE_DIR": ev})
    finally:
        sh("git -C /repo checkout -- .")
        shutil.rmtree(ev, ignore_errors=True)
    fired = []
    cur = None
    for l in out.splitlines():
        m = re.match(r"VIOLATION property=(C\d+)", l)
        if m:
            cur = m.group(1)
        m2 = re.match(r"\s+rule=(\S+) key=(.*)", l)
        if m2 and cur:
            fired.append("%s %s %s" % (cur, m2.group(1), m2.group(2)))
    meta["checks_fired"] = fired
    meta["caught"] = bool(fired)
    meta["caught_by_own_property"] = any(f.startswith(prop + " ") for f in fired)
    meta["ran"].append("git -C /repo apply <patch>; ./vf all --tier quick; git -C /repo checkout -- .  -> %d violation(s)" % len(fired))
    print("checks fired:", fired[:8] if fired else "NONE")
    if meta.get("confirmed"):
        d = os.path.join(VERIF, "seeded", sid)
        os.makedirs(d, exist_ok=True)
        shutil.copy2(patch, os.path.join(d, "patch.diff"))
        shutil.copy2(demo, os.path.join(d, "demo.rs"))
        json.dump(meta, open(os.path.join(d, "meta.json"), "w"), indent=1)
        print("stored", d)
    return 0


if __name__ == "__main__":
    sys.exit(main())
