#!/bin/bash
# usage: tools/run_demo.sh <repo-dir> <demo.rs> [cargo feature args...]  -- copies the demo into <repo-dir>/tests and runs it
set -e
REPO=$1; DEMO=$(readlink -f $2); shift; shift
N=$(basename $DEMO .rs)
cp $DEMO $REPO/tests/zz_$N.rs
cd $REPO
set +e
CARGO_NET_OFFLINE=true cargo test --offline --test zz_$N "$@" 2>&1 | tail -15
RC=${PIPESTATUS[0]}
rm -f $REPO/tests/zz_$N.rs
exit $RC
