#!/bin/bash
# development helper: run some checks against a scratch copy of /repo's HEAD with one patch applied
# usage: check_patch.sh <patch.diff> <Cnn> [<Cnn> ...]
set -u
patch="$(readlink -f "$1")"; shift
t="$(mktemp -d /tmp/cpatch-XXXX)"
mkdir -p "$t/repo" && git -C /repo archive HEAD | tar -x -C "$t/repo" && cp /repo/Cargo.lock "$t/repo/" 
( cd "$t/repo" && patch -p1 -s -i "$patch" ) || { echo "patch does not apply"; rm -rf "$t"; exit 2; }
for p in "$@"; do
  VERIF_REPO="$t/repo" VERIF_EVIDENCE_DIR="$t/ev" CARGO_NET_OFFLINE=true /verif/vf check "$p" --tier "${TIER:-quick}" 2>&1 | grep -E "VIOLATION|rule=|\[quick\]|\[thorough\]|rror" | cut -c1-400
done
rm -rf "$t"
