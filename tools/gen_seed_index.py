#!/usr/bin/env python3
"""Regenerate seeded/INDEX.md from the meta.json files."""
import json, os, glob
V = "/verif/seeded"
rows = []
for f in sorted(glob.glob(V + "/*/meta.json")):
    m = json.load(open(f))
    own = sorted({x.split()[1] for x in m["checks_fired"] if x.startswith(m["property"] + " ")})
    allr = sorted({x.split()[1] for x in m["checks_fired"]})
    rows.append("| %s | %s | %s | %s | %s | %s | %s |" % (m["id"], m["property"], "yes" if m["caught"] else "NO", "yes" if m["caught_by_own_property"] else "NO", ", ".join(own), ", ".join(allr[:6]), m["needs_to_manifest"].replace("|", "/")))
n = len(rows)
hdr = """# Seeded changes

Written by sub-agents that saw only the text of one property and a scratch worktree of /repo (nothing from /verif). Round 1 (`Cnn-s1/s2`): 20 agents x 2 seeds; round 2 (`Cnn-r2s1..3`): 10 agents x 3 seeds, asked for subtler changes; round 3 (`Cnn-r3s1..3`): the other 10 properties x 3 seeds, same brief as round 2; round 4 (`Cnn-r4s1..2`): 10 properties x 2 seeds, data-and-condition-only slips with the code shape intact. Each was confirmed here: the demo fails with the change and passes without it; `cargo test --lib --test cc --test auto_collect` and `cargo test --lib -F weak-ptrs,cleaners` pass with it (macro_tests fails in the pinned baseline and is skipped). The checks were run the prescribed way (`git -C /repo apply`, `./vf all`, `git -C /repo checkout -- .`) by tools/eval_seed.py; tools/recheck_seeds.py refreshes the `fired` columns with the current engine on scratch copies. %d changes, %d caught, %d by the check of the property they were written against.

| id | property | caught | by its own check | own-check rules that fire | all rules that fire (first 6) | needs to manifest |
|---|---|---|---|---|---|---|
""" % (n, sum(1 for r in rows if "| yes | " in r), sum(1 for f in glob.glob(V + "/*/meta.json") if json.load(open(f))["caught_by_own_property"]))
open(V + "/INDEX.md", "w").write(hdr + "\n".join(rows) + "\n")
print("INDEX.md: %d rows" % n)
