// ccfacts: rustc_private driver that dumps type-checked facts (MIR bodies with resolved callees,
// ADTs, impls, statics, evaluated constants) of the crate being compiled as one JSON file.
// Used as RUSTC_WORKSPACE_WRAPPER; argv[1] is the real rustc path and is dropped.
// Nothing of the analysed crate is executed: the driver stops being interesting after analysis.
#![feature(rustc_private)]
#![allow(clippy::all)]

extern crate rustc_abi;
extern crate rustc_driver;
extern crate rustc_hir;
extern crate rustc_interface;
extern crate rustc_middle;
extern crate rustc_session;
extern crate rustc_span;

use std::collections::BTreeSet;


use rustc_driver::Compilation;
use rustc_hir::def::DefKind;
use rustc_hir::def_id::{DefId, LocalDefId};
use rustc_middle::mir::{
    self, AggregateKind, BasicBlock, Body, Operand, Place, ProjectionElem, Rvalue, StatementKind,
    TerminatorKind, UnwindAction,
};
use rustc_middle::ty::{self, GenericArgKind, Instance, Ty, TyCtxt, TypingEnv};
use rustc_span::Span;

mod json;
use json::J;

struct Cb {
    out_dir: Option<String>,
    crates: Vec<String>,
}

impl rustc_driver::Callbacks for Cb {
    fn after_analysis<'tcx>(
        &mut self,
        _compiler: &rustc_interface::interface::Compiler,
        tcx: TyCtxt<'tcx>,
    ) -> Compilation {
        let Some(out_dir) = self.out_dir.clone() else {
            return Compilation::Continue;
        };
        let name = tcx.crate_name(rustc_hir::def_id::LOCAL_CRATE).to_string();
        if name == "build_script_build" {
            return Compilation::Continue;
        }
        if !self.crates.is_empty() && !self.crates.iter().any(|c| c == &name) {
            return Compilation::Continue;
        }
        let j = dump_crate(tcx, &name);
        let mut text = String::new();
        j.write(&mut text);
        // one write per process
        let is_test = tcx.sess.opts.test;
        let mut path = format!("{}/{}{}.json", out_dir, name, if is_test { "-test" } else { "" });
        let mut n = 1;
        while std::path::Path::new(&path).exists() {
            path = format!("{}/{}{}-{}.json", out_dir, name, if is_test { "-test" } else { "" }, n);
            n += 1;
        }
        std::fs::write(&path, text).expect("ccfacts: cannot write fact file");
        Compilation::Continue
    }
}

fn main() {
    let mut args: Vec<String> = std::env::args().collect();
    if args.len() > 1 && (args[1].ends_with("rustc") || args[1].contains("/rustc")) {
        args.remove(1);
    }
    let out_dir = std::env::var("CCFACTS_OUT").ok();
    let crates = std::env::var("CCFACTS_CRATES")
        .ok()
        .map(|s| s.split(',').filter(|x| !x.is_empty()).map(|x| x.to_string()).collect())
        .unwrap_or_default();
    let mut cb = Cb { out_dir, crates };
    rustc_driver::run_compiler(&args, &mut cb);
}

// ---------------------------------------------------------------------------------------------

fn span_str(tcx: TyCtxt<'_>, span: Span) -> String {
    let sm = tcx.sess.source_map();
    let sp = span.source_callsite();
    let lo = sm.lookup_char_pos(sp.lo());
    format!("{}:{}", lo.file.name.prefer_local_unconditionally(), lo.line)
}

fn macro_chain(span: Span) -> Vec<String> {
    span.macro_backtrace().map(|e| e.kind.descr().to_string()).collect()
}

fn uid(tcx: TyCtxt<'_>, did: DefId) -> String {
    format!("{}{}", tcx.crate_name(did.krate), tcx.def_path(did).to_string_no_crate_verbose())
}

fn dump_crate<'tcx>(tcx: TyCtxt<'tcx>, name: &str) -> J {
    let mut fns = Vec::new();
    let mut adts = Vec::new();
    let mut impls = Vec::new();
    let mut statics = Vec::new();
    let mut consts = Vec::new();

    for ldid in tcx.hir_crate_items(()).definitions() {
        let did = ldid.to_def_id();
        let kind = tcx.def_kind(did);
        match kind {
            DefKind::Struct | DefKind::Enum | DefKind::Union => adts.push(dump_adt(tcx, did)),
            DefKind::Impl { of_trait } => impls.push(dump_impl(tcx, did, of_trait)),
            DefKind::Static { .. } => statics.push(dump_static(tcx, did)),
            DefKind::Const { .. } | DefKind::AssocConst { .. } => {
                if let Some(c) = dump_const(tcx, did) {
                    consts.push(c);
                }
            }
            _ => {}
        }
    }

    for ldid in tcx.hir_body_owners() {
        let did = ldid.to_def_id();
        match tcx.def_kind(did) {
            DefKind::Fn | DefKind::AssocFn | DefKind::Closure => {
                fns.push(dump_fn(tcx, ldid));
            }
            _ => {}
        }
    }

    let mut cfgs: Vec<String> = Vec::new();
    for (k, v) in tcx.sess.config.iter() {
        match v {
            Some(v) => cfgs.push(format!("{}={}", k, v)),
            None => cfgs.push(k.to_string()),
        }
    }
    cfgs.sort();

    J::obj(vec![
        ("crate", J::s(name)),
        ("is_test", J::Bool(tcx.sess.opts.test)),
        ("debug_assertions", J::Bool(tcx.sess.opts.debug_assertions)),
        ("cfg", J::Arr(cfgs.into_iter().filter(|c| c.starts_with("feature=") || c == "debug_assertions" || c == "test" || c.starts_with("panic=")).map(|c| J::s(&c)).collect())),
        ("fns", J::Arr(fns)),
        ("adts", J::Arr(adts)),
        ("impls", J::Arr(impls)),
        ("statics", J::Arr(statics)),
        ("consts", J::Arr(consts)),
    ])
}

fn vis_str(tcx: TyCtxt<'_>, did: DefId) -> &'static str {
    match tcx.def_kind(did) {
        DefKind::Fn | DefKind::AssocFn | DefKind::Struct | DefKind::Enum | DefKind::Union | DefKind::Static { .. } | DefKind::Const { .. } | DefKind::AssocConst { .. } | DefKind::Field => {}
        _ => return "n/a",
    }
    let v = tcx.visibility(did);
    if v.is_public() {
        "pub"
    } else {
        match v {
            ty::Visibility::Restricted(m) => {
                if m.is_crate_root() {
                    "crate"
                } else {
                    "restricted"
                }
            }
            _ => "pub",
        }
    }
}

fn dump_adt<'tcx>(tcx: TyCtxt<'tcx>, did: DefId) -> J {
    let adt = tcx.adt_def(did);
    let repr = adt.repr();
    let mut variants = Vec::new();
    for v in adt.variants().iter() {
        let mut fields = Vec::new();
        for f in v.fields.iter() {
            let fty = tcx.type_of(f.did).instantiate_identity().skip_norm_wip();
            fields.push(J::obj(vec![
                ("name", J::s(&f.name.to_string())),
                ("ty", J::s(&fty.to_string())),
                ("vis", J::s(vis_str(tcx, f.did))),
            ]));
        }
        variants.push(J::obj(vec![("name", J::s(&v.name.to_string())), ("fields", J::Arr(fields))]));
    }
    let mut discrs = Vec::new();
    if adt.is_enum() {
        for (vi, d) in adt.discriminants(tcx) {
            discrs.push(J::obj(vec![("variant", J::s(&adt.variant(vi).name.to_string())), ("val", J::Num(d.val as i128))]));
        }
    }
    let dtor = adt.destructor(tcx).map(|d| uid(tcx, d.did));
    let self_ty = tcx.type_of(did).instantiate_identity().skip_norm_wip();
    let te = TypingEnv::post_analysis(tcx, did);
    let (dtors, has_param) = drop_info(tcx, self_ty, te);
    J::obj(vec![
        ("id", J::s(&uid(tcx, did))),
        ("path", J::s(&tcx.def_path_str(did))),
        ("kind", J::s(if adt.is_struct() { "struct" } else if adt.is_enum() { "enum" } else { "union" })),
        ("vis", J::s(vis_str(tcx, did))),
        ("repr_c", J::Bool(repr.c())),
        ("repr_transparent", J::Bool(repr.transparent())),
        ("repr_packed", J::Bool(repr.packed())),
        ("repr_int", J::Bool(repr.int.is_some())),
        ("variants", J::Arr(variants)),
        ("discriminants", J::Arr(discrs)),
        ("destructor", dtor.map(|s| J::s(&s)).unwrap_or(J::Null)),
        ("drop_tree", J::Arr(dtors.iter().map(|s| J::s(s)).collect())),
        ("drop_tree_has_param", J::Bool(has_param)),
        ("span", J::s(&span_str(tcx, tcx.def_span(did)))),
    ])
}

fn dump_impl<'tcx>(tcx: TyCtxt<'tcx>, did: DefId, of_trait: bool) -> J {
    let self_ty = tcx.type_of(did).instantiate_identity().skip_norm_wip();
    let mut trait_path = J::Null;
    let mut is_unsafe = false;
    let mut negative = false;
    if of_trait {
        let tr = tcx.impl_trait_ref(did).instantiate_identity().skip_norm_wip();
        trait_path = J::s(&tcx.def_path_str(tr.def_id));
        let header = tcx.impl_trait_header(did);
        is_unsafe = header.safety.is_unsafe();
        negative = matches!(header.polarity, ty::ImplPolarity::Negative);
    }
    let items: Vec<J> = tcx
        .associated_item_def_ids(did)
        .iter()
        .map(|d| J::obj(vec![("id", J::s(&uid(tcx, *d))), ("name", J::s(&tcx.item_name(*d).to_string()))]))
        .collect();
    J::obj(vec![
        ("id", J::s(&uid(tcx, did))),
        ("trait", trait_path),
        ("self_ty", J::s(&self_ty.to_string())),
        ("unsafe", J::Bool(is_unsafe)),
        ("negative", J::Bool(negative)),
        ("items", J::Arr(items)),
        ("span", J::s(&span_str(tcx, tcx.def_span(did)))),
    ])
}

fn dump_static<'tcx>(tcx: TyCtxt<'tcx>, did: DefId) -> J {
    let ty = tcx.type_of(did).instantiate_identity().skip_norm_wip();
    let te = TypingEnv::post_analysis(tcx, did);
    J::obj(vec![
        ("id", J::s(&uid(tcx, did))),
        ("path", J::s(&tcx.def_path_str(did))),
        ("ty", J::s(&ty.to_string())),
        ("thread_local", J::Bool(tcx.is_thread_local_static(did))),
        ("mutable", J::Bool(tcx.is_mutable_static(did))),
        ("needs_drop", J::Bool(ty.needs_drop(tcx, te))),
        ("span", J::s(&span_str(tcx, tcx.def_span(did)))),
    ])
}

fn dump_const<'tcx>(tcx: TyCtxt<'tcx>, did: DefId) -> Option<J> {
    if tcx.generics_of(did).requires_monomorphization(tcx) {
        return None;
    }
    let ty = tcx.type_of(did).instantiate_identity().skip_norm_wip();
    let mut val = J::Null;
    if ty.is_integral() || ty.is_bool() || ty.is_char() {
        if let Ok(cv) = tcx.const_eval_poly(did) {
            if let Some(si) = cv.try_to_scalar_int() {
                val = J::Num(si.to_bits(si.size()) as i128);
            }
        }
    }
    let mut sval = J::Null;
    if ty.is_ref() && ty.peel_refs().is_str() {
        if let Ok(cv) = tcx.const_eval_poly(did) {
            if let Some(bytes) = cv.try_get_slice_bytes_for_diagnostics(tcx) {
                sval = J::s(&String::from_utf8_lossy(bytes));
            }
        }
    }
    Some(J::obj(vec![
        ("id", J::s(&uid(tcx, did))),
        ("path", J::s(&tcx.def_path_str(did))),
        ("ty", J::s(&ty.to_string())),
        ("val", val),
        ("str", sval),
    ]))
}

// ---------------------------------------------------------------------------------------------
// drop-tree of a type: the Drop impls that its drop glue may run and whether user code (type
// parameter / dyn / opaque) can be reached through it.

fn drop_info<'tcx>(tcx: TyCtxt<'tcx>, ty: Ty<'tcx>, te: TypingEnv<'tcx>) -> (Vec<String>, bool) {
    let mut dtors = BTreeSet::new();
    let mut has_param = false;
    let mut seen: Vec<Ty<'tcx>> = Vec::new();
    walk_drop(tcx, ty, te, &mut dtors, &mut has_param, &mut seen, 0);
    (dtors.into_iter().collect(), has_param)
}

fn walk_drop<'tcx>(
    tcx: TyCtxt<'tcx>,
    ty: Ty<'tcx>,
    te: TypingEnv<'tcx>,
    dtors: &mut BTreeSet<String>,
    has_param: &mut bool,
    seen: &mut Vec<Ty<'tcx>>,
    depth: usize,
) {
    if depth > 12 || seen.contains(&ty) {
        return;
    }
    if !ty.needs_drop(tcx, te) {
        // NonNull<CcBox<T>>, raw pointers, PhantomData, Copy data: dropping them runs no code
        return;
    }
    seen.push(ty);
    match ty.kind() {
        ty::Param(_) | ty::Dynamic(..) | ty::Alias(..) | ty::Placeholder(_) | ty::Bound(..) | ty::Infer(_) => {
            *has_param = true;
        }
        ty::Adt(def, args) => {
            if def.is_manually_drop() || def.is_phantom_data() {
                return;
            }
            if let Some(d) = def.destructor(tcx) {
                dtors.insert(uid(tcx, d.did));
            }
            if def.is_box() {
                walk_drop(tcx, args.type_at(0), te, dtors, has_param, seen, depth + 1);
                return;
            }
            if def.is_union() {
                return;
            }
            if !def.did().is_local() && def.destructor(tcx).is_some() {
                // foreign type with its own Drop impl (Vec, Rc, RawTable, Slot...): it may drop values of its type
                // arguments through raw pointers that the field types do not show (conservative: all are owned)
                for a in args.iter() {
                    if let GenericArgKind::Type(t) = a.kind() {
                        walk_drop(tcx, t, te, dtors, has_param, seen, depth + 1);
                    }
                }
            }
            // field types are available for foreign ADTs too (RefMut<'_, T> holds a NonNull<T>: owns nothing)
            for v in def.variants().iter() {
                for f in v.fields.iter() {
                    let fty = f.ty(tcx, args);
                    walk_drop(tcx, fty, te, dtors, has_param, seen, depth + 1);
                }
            }
        }
        ty::Tuple(ts) => {
            for t in ts.iter() {
                walk_drop(tcx, t, te, dtors, has_param, seen, depth + 1);
            }
        }
        ty::Array(t, _) | ty::Slice(t) => walk_drop(tcx, *t, te, dtors, has_param, seen, depth + 1),
        ty::Closure(_, args) => {
            for t in args.as_closure().upvar_tys().iter() {
                walk_drop(tcx, t, te, dtors, has_param, seen, depth + 1);
            }
        }
        _ => {}
    }
}

// ---------------------------------------------------------------------------------------------

fn dump_fn<'tcx>(tcx: TyCtxt<'tcx>, ldid: LocalDefId) -> J {
    let did = ldid.to_def_id();
    let kind = tcx.def_kind(did);
    let body: &Body<'tcx> = tcx.optimized_mir(did);
    let te = TypingEnv::post_analysis(tcx, did);

    let mut impl_of = J::Null;
    let mut trait_method = J::Null;
    if matches!(kind, DefKind::AssocFn) {
        let parent = tcx.parent(did);
        if let DefKind::Impl { of_trait } = tcx.def_kind(parent) {
            let self_ty = tcx.type_of(parent).instantiate_identity().skip_norm_wip();
            let mut tr = J::Null;
            if of_trait {
                let r = tcx.impl_trait_ref(parent).instantiate_identity().skip_norm_wip();
                tr = J::s(&tcx.def_path_str(r.def_id));
            }
            impl_of = J::obj(vec![("id", J::s(&uid(tcx, parent))), ("trait", tr), ("self_ty", J::s(&self_ty.to_string()))]);
        } else if let DefKind::Trait = tcx.def_kind(parent) {
            trait_method = J::s(&tcx.def_path_str(parent));
        }
    }
    let parent_fn = if matches!(kind, DefKind::Closure) { J::s(&uid(tcx, tcx.typeck_root_def_id(did))) } else { J::Null };
    let direct_parent = J::s(&uid(tcx, tcx.parent(did)));

    let is_unsafe = match kind {
        DefKind::Fn | DefKind::AssocFn => tcx.fn_sig(did).skip_binder().safety().is_unsafe(),
        _ => false,
    };

    let generics: Vec<J> = {
        let g = tcx.generics_of(did);
        let mut v = Vec::new();
        let mut cur = Some(g);
        let mut names = Vec::new();
        while let Some(g) = cur {
            for p in g.own_params.iter().rev() {
                names.push(p.name.to_string());
            }
            cur = g.parent.map(|p| tcx.generics_of(p));
        }
        names.reverse();
        for n in names {
            v.push(J::s(&n));
        }
        v
    };

    let mut locals = Vec::new();
    let mut names: Vec<Option<String>> = vec![None; body.local_decls.len()];
    for vdi in body.var_debug_info.iter() {
        if let mir::VarDebugInfoContents::Place(p) = &vdi.value {
            if p.projection.is_empty() {
                names[p.local.as_usize()] = Some(vdi.name.to_string());
            }
        }
    }
    // closure upvar names
    let mut upvars = Vec::new();
    for vdi in body.var_debug_info.iter() {
        if let mir::VarDebugInfoContents::Place(p) = &vdi.value {
            if p.local.as_usize() == 1 && !p.projection.is_empty() && matches!(kind, DefKind::Closure) {
                upvars.push(J::obj(vec![("name", J::s(&vdi.name.to_string())), ("place", place_j(tcx, body, p))]));
            }
        }
    }
    for (i, ld) in body.local_decls.iter().enumerate() {
        locals.push(J::obj(vec![
            ("ty", J::s(&ld.ty.to_string())),
            ("name", names[i].as_ref().map(|s| J::s(s)).unwrap_or(J::Null)),
        ]));
    }

    let blocks = blocks_j(tcx, body, te);
    let mut promoted = Vec::new();
    for pb in tcx.promoted_mir(did).iter() {
        promoted.push(J::Arr(blocks_j(tcx, pb, te)));
    }

    J::obj(vec![
        ("id", J::s(&uid(tcx, did))),
        ("path", J::s(&tcx.def_path_str(did))),
        ("kind", J::s(match kind { DefKind::Closure => "closure", DefKind::AssocFn => "method", _ => "fn" })),
        ("vis", J::s(vis_str(tcx, did))),
        ("unsafe", J::Bool(is_unsafe)),
        ("impl_of", impl_of),
        ("trait_decl", trait_method),
        ("root", parent_fn),
        ("parent", direct_parent),
        ("generics", J::Arr(generics)),
        ("arg_count", J::Num(body.arg_count as i128)),
        ("locals", J::Arr(locals)),
        ("upvars", J::Arr(upvars)),
        ("blocks", J::Arr(blocks)),
        ("promoted", J::Arr(promoted)),
        ("span", J::s(&span_str(tcx, tcx.def_span(did)))),
    ])
}

fn blocks_j<'tcx>(tcx: TyCtxt<'tcx>, body: &Body<'tcx>, te: TypingEnv<'tcx>) -> Vec<J> {
    let mut blocks = Vec::new();
    for (_bb, data) in body.basic_blocks.iter_enumerated() {
        let mut stmts = Vec::new();
        for st in data.statements.iter() {
            match &st.kind {
                StatementKind::Assign(b) => {
                    let (place, rv) = &**b;
                    stmts.push(J::obj(vec![
                        ("k", J::s("assign")),
                        ("place", place_j(tcx, body, place)),
                        ("rv", rvalue_j(tcx, body, te, rv)),
                        ("line", J::s(&span_str(tcx, st.source_info.span))),
                        ("exp", J::Arr(macro_chain(st.source_info.span).iter().map(|s| J::s(s)).collect())),
                    ]));
                }
                StatementKind::SetDiscriminant { place, variant_index } => {
                    stmts.push(J::obj(vec![
                        ("k", J::s("setdiscr")),
                        ("place", place_j(tcx, body, place)),
                        ("variant", J::Num(variant_index.as_usize() as i128)),
                    ]));
                }
                StatementKind::Intrinsic(i) => {
                    stmts.push(J::obj(vec![("k", J::s("intrinsic")), ("text", J::s(&format!("{:?}", i)))]));
                }
                _ => {}
            }
        }
        let term = data.terminator();
        let tj = term_j(tcx, body, te, term);
        blocks.push(J::obj(vec![("cleanup", J::Bool(data.is_cleanup)), ("stmts", J::Arr(stmts)), ("term", tj)]));
    }
    blocks
}

fn place_j<'tcx>(tcx: TyCtxt<'tcx>, body: &Body<'tcx>, p: &Place<'tcx>) -> J {
    let mut proj = Vec::new();
    let mut cur_ty = mir::PlaceTy::from_ty(body.local_decls[p.local].ty);
    for elem in p.projection.iter() {
        match elem {
            ProjectionElem::Deref => proj.push(J::s("*")),
            ProjectionElem::Field(f, _) => {
                // name from the ADT definition
                let mut name = format!("{}", f.as_usize());
                match cur_ty.ty.kind() {
                    ty::Adt(def, _) => {
                        let vi = cur_ty.variant_index.unwrap_or(rustc_abi::FIRST_VARIANT);
                        if vi.as_usize() < def.variants().len() {
                            let v = def.variant(vi);
                            if f.as_usize() < v.fields.len() {
                                name = v.fields[f].name.to_string();
                            }
                        }
                    }
                    _ => {}
                }
                proj.push(J::obj(vec![("f", J::Num(f.as_usize() as i128)), ("n", J::s(&name)), ("bt", J::s(&cur_ty.ty.to_string()))]));
            }
            ProjectionElem::Downcast(sym, vi) => {
                let n = sym.map(|s| s.to_string()).unwrap_or_else(|| format!("{}", vi.as_usize()));
                proj.push(J::obj(vec![("v", J::s(&n)), ("vi", J::Num(vi.as_usize() as i128))]));
            }
            ProjectionElem::Index(l) => proj.push(J::obj(vec![("idx", J::Num(l.as_usize() as i128))])),
            ProjectionElem::ConstantIndex { offset, .. } => proj.push(J::obj(vec![("cidx", J::Num(offset as i128))])),
            ProjectionElem::Subslice { .. } => proj.push(J::s("subslice")),
            ProjectionElem::OpaqueCast(_) => proj.push(J::s("opaque")),
            ProjectionElem::UnwrapUnsafeBinder(_) => proj.push(J::s("unwrap_binder")),
        }
        cur_ty = cur_ty.projection_ty(tcx, elem);
    }
    J::obj(vec![("l", J::Num(p.local.as_usize() as i128)), ("p", J::Arr(proj)), ("ty", J::s(&cur_ty.ty.to_string()))])
}

fn operand_j<'tcx>(tcx: TyCtxt<'tcx>, body: &Body<'tcx>, te: TypingEnv<'tcx>, op: &Operand<'tcx>) -> J {
    match op {
        Operand::Copy(p) => J::obj(vec![("k", J::s("copy")), ("place", place_j(tcx, body, p))]),
        Operand::Move(p) => J::obj(vec![("k", J::s("move")), ("place", place_j(tcx, body, p))]),
        Operand::Constant(c) => {
            let ty = c.const_.ty();
            let mut v = vec![("k", J::s("const")), ("ty", J::s(&ty.to_string()))];
            if let ty::FnDef(did, args) = ty.kind() {
                v.push(("fn", callee_j(tcx, te, *did, args)));
            } else if ty.is_integral() || ty.is_bool() || ty.is_char() {
                if let Some(si) = c.const_.try_eval_scalar_int(tcx, te) {
                    v.push(("val", J::Num(si.to_bits(si.size()) as i128)));
                }
            }
            if let ty::Adt(def, _) = ty.kind() {
                // unit-like enum constants (e.g. Mark::InQueue) are usually built by Aggregate, but keep text
                let _ = def;
            }
            v.push(("text", J::s(&format!("{}", c.const_))));
            J::obj(v)
        }
        #[allow(unreachable_patterns)]
        _ => J::obj(vec![("k", J::s("other")), ("text", J::s(&format!("{:?}", op)))]),
    }
}

fn closure_of_ty<'tcx>(tcx: TyCtxt<'tcx>, t: Ty<'tcx>) -> Option<String> {
    match t.kind() {
        ty::Closure(did, _) => Some(uid(tcx, *did)),
        _ => None,
    }
}

fn callee_j<'tcx>(tcx: TyCtxt<'tcx>, te: TypingEnv<'tcx>, did: DefId, args: ty::GenericArgsRef<'tcx>) -> J {
    let mut v = vec![
        ("id", J::s(&uid(tcx, did))),
        ("path", J::s(&tcx.def_path_str(did))),
        ("local", J::Bool(did.is_local())),
        ("name", J::s(&tcx.item_name(did).to_string())),
    ];
    // generic args
    let mut ga = Vec::new();
    let mut ga_nd = Vec::new();
    let mut closures = Vec::new();
    let mut fnitems = Vec::new();
    for a in args.iter() {
        match a.kind() {
            GenericArgKind::Type(t) => {
                ga.push(J::s(&t.to_string()));
                ga_nd.push(J::Bool(t.needs_drop(tcx, te)));
                // closures (possibly behind references) and fn items among the generic arguments
                let mut tt = t;
                while let ty::Ref(_, inner, _) = tt.kind() {
                    tt = *inner;
                }
                if let Some(c) = closure_of_ty(tcx, tt) {
                    closures.push(J::s(&c));
                }
                if let ty::FnDef(fd, _) = tt.kind() {
                    fnitems.push(J::s(&uid(tcx, *fd)));
                }
            }
            GenericArgKind::Const(c) => {
                ga.push(J::s(&format!("{}", c)));
                ga_nd.push(J::Bool(false));
            }
            GenericArgKind::Lifetime(_) => {}
        }
    }
    v.push(("substs", J::Arr(ga)));
    v.push(("substs_needs_drop", J::Arr(ga_nd)));
    v.push(("closure_args", J::Arr(closures)));
    v.push(("fn_args", J::Arr(fnitems)));

    // trait method?
    if let Some(tr) = tcx.trait_of_assoc(did) {
        v.push(("trait", J::s(&tcx.def_path_str(tr))));
        if args.len() > 0 {
            if let GenericArgKind::Type(st) = args[0].kind() {
                v.push(("self_ty", J::s(&st.to_string())));
                let sk = match st.kind() {
                    ty::Param(_) => "param",
                    ty::Dynamic(..) => "dyn",
                    ty::Closure(..) => "closure",
                    ty::Alias(..) => "alias",
                    ty::Adt(d, _) if d.did().is_local() => "local_adt",
                    ty::Adt(..) => "adt",
                    ty::Ref(..) => "ref",
                    ty::FnDef(..) => "fndef",
                    _ => "other",
                };
                v.push(("self_kind", J::s(sk)));
                if let Some(c) = closure_of_ty(tcx, st) {
                    v.push(("self_closure", J::s(&c)));
                }
            }
        }
    }
    // resolution
    let res = Instance::try_resolve(tcx, te, did, args);
    match res {
        Ok(Some(inst)) => {
            let rdid = inst.def_id();
            let rk = match inst.def {
                ty::InstanceKind::Item(_) => "item",
                ty::InstanceKind::Intrinsic(_) => "intrinsic",
                ty::InstanceKind::Virtual(..) => "virtual",
                ty::InstanceKind::ClosureOnceShim { .. } => "closure_once_shim",
                ty::InstanceKind::FnPtrShim(..) => "fnptr_shim",
                ty::InstanceKind::DropGlue(..) => "drop_glue",
                ty::InstanceKind::CloneShim(..) => "clone_shim",
                ty::InstanceKind::ReifyShim(..) => "reify_shim",
                ty::InstanceKind::VTableShim(..) => "vtable_shim",
                _ => "other_shim",
            };
            v.push(("res", J::s(rk)));
            v.push(("res_id", J::s(&uid(tcx, rdid))));
            v.push(("res_path", J::s(&tcx.def_path_str(rdid))));
            v.push(("res_local", J::Bool(rdid.is_local())));
            if let ty::InstanceKind::DropGlue(_, Some(t)) = inst.def {
                let (d, hp) = drop_info(tcx, t, te);
                v.push(("glue_ty", J::s(&t.to_string())));
                v.push(("glue_dtors", J::Arr(d.iter().map(|s| J::s(s)).collect())));
                v.push(("glue_has_param", J::Bool(hp)));
            }
        }
        Ok(None) => {
            v.push(("res", J::s("unresolved")));
        }
        Err(_) => {
            v.push(("res", J::s("error")));
        }
    }
    J::obj(v)
}

fn rvalue_j<'tcx>(tcx: TyCtxt<'tcx>, body: &Body<'tcx>, te: TypingEnv<'tcx>, rv: &Rvalue<'tcx>) -> J {
    match rv {
        Rvalue::Use(op, ..) => J::obj(vec![("k", J::s("use")), ("op", operand_j(tcx, body, te, op))]),
        Rvalue::Ref(_, bk, p) => J::obj(vec![
            ("k", J::s("ref")),
            ("mut", J::Bool(matches!(bk, mir::BorrowKind::Mut { .. }))),
            ("place", place_j(tcx, body, p)),
        ]),
        Rvalue::RawPtr(k, p) => J::obj(vec![
            ("k", J::s("rawptr")),
            ("mut", J::Bool(format!("{:?}", k).contains("Mut"))),
            ("place", place_j(tcx, body, p)),
        ]),
        Rvalue::BinaryOp(op, b) => {
            let (a, c) = &**b;
            J::obj(vec![
                ("k", J::s("bin")),
                ("op", J::s(&format!("{:?}", op))),
                ("a", operand_j(tcx, body, te, a)),
                ("b", operand_j(tcx, body, te, c)),
                ("float", J::Bool(a.ty(body, tcx).is_floating_point())),
            ])
        }
        Rvalue::UnaryOp(op, a) => J::obj(vec![("k", J::s("un")), ("op", J::s(&format!("{:?}", op))), ("a", operand_j(tcx, body, te, a))]),
        Rvalue::Cast(kind, op, ty) => J::obj(vec![
            ("k", J::s("cast")),
            ("kind", J::s(&format!("{:?}", kind))),
            ("op", operand_j(tcx, body, te, op)),
            ("ty", J::s(&ty.to_string())),
        ]),
        Rvalue::Discriminant(p) => J::obj(vec![("k", J::s("discr")), ("place", place_j(tcx, body, p))]),
        Rvalue::Aggregate(kind, ops) => {
            let mut v = vec![("k", J::s("agg"))];
            match &**kind {
                AggregateKind::Adt(did, vi, _args, _, active_field) => {
                    let def = tcx.adt_def(*did);
                    v.push(("agg", J::s("adt")));
                    v.push(("adt", J::s(&tcx.def_path_str(*did))));
                    v.push(("adt_id", J::s(&uid(tcx, *did))));
                    let var = def.variant(*vi);
                    v.push(("variant", J::s(&var.name.to_string())));
                    let mut fnames = Vec::new();
                    if let Some(af) = active_field {
                        fnames.push(J::s(&var.fields[*af].name.to_string()));
                    } else {
                        for f in var.fields.iter() {
                            fnames.push(J::s(&f.name.to_string()));
                        }
                    }
                    v.push(("fields", J::Arr(fnames)));
                }
                AggregateKind::Closure(did, _) => {
                    v.push(("agg", J::s("closure")));
                    v.push(("closure", J::s(&uid(tcx, *did))));
                }
                AggregateKind::Tuple => v.push(("agg", J::s("tuple"))),
                AggregateKind::Array(_) => v.push(("agg", J::s("array"))),
                other => {
                    v.push(("agg", J::s("other")));
                    v.push(("text", J::s(&format!("{:?}", other))));
                }
            }
            v.push(("ops", J::Arr(ops.iter().map(|o| operand_j(tcx, body, te, o)).collect())));
            J::obj(v)
        }
        Rvalue::Repeat(op, _) => J::obj(vec![("k", J::s("repeat")), ("op", operand_j(tcx, body, te, op))]),
        Rvalue::ThreadLocalRef(did) => J::obj(vec![("k", J::s("tlsref")), ("static", J::s(&uid(tcx, *did)))]),
        Rvalue::CopyForDeref(p) => J::obj(vec![("k", J::s("use")), ("op", J::obj(vec![("k", J::s("copy")), ("place", place_j(tcx, body, p))]))]),
        other => J::obj(vec![("k", J::s("other")), ("text", J::s(&format!("{:?}", other)))]),
    }
}

fn unwind_j(u: &UnwindAction) -> J {
    match u {
        UnwindAction::Continue => J::s("continue"),
        UnwindAction::Unreachable => J::s("unreachable"),
        UnwindAction::Terminate(_) => J::s("terminate"),
        UnwindAction::Cleanup(bb) => J::Num(bb.as_usize() as i128),
    }
}

fn bb_j(bb: BasicBlock) -> J {
    J::Num(bb.as_usize() as i128)
}

fn term_j<'tcx>(tcx: TyCtxt<'tcx>, body: &Body<'tcx>, te: TypingEnv<'tcx>, term: &mir::Terminator<'tcx>) -> J {
    let line = J::s(&span_str(tcx, term.source_info.span));
    let exp = J::Arr(macro_chain(term.source_info.span).iter().map(|s| J::s(s)).collect());
    match &term.kind {
        TerminatorKind::Goto { target } => J::obj(vec![("k", J::s("goto")), ("target", bb_j(*target))]),
        TerminatorKind::SwitchInt { discr, targets } => {
            let mut ts = Vec::new();
            for (v, bb) in targets.iter() {
                ts.push(J::Arr(vec![J::Num(v as i128), bb_j(bb)]));
            }
            J::obj(vec![
                ("k", J::s("switch")),
                ("op", operand_j(tcx, body, te, discr)),
                ("targets", J::Arr(ts)),
                ("otherwise", bb_j(targets.otherwise())),
                ("line", line),
                ("exp", exp),
            ])
        }
        TerminatorKind::Return => J::obj(vec![("k", J::s("return"))]),
        TerminatorKind::UnwindResume => J::obj(vec![("k", J::s("resume"))]),
        TerminatorKind::UnwindTerminate(_) => J::obj(vec![("k", J::s("terminate"))]),
        TerminatorKind::Unreachable => J::obj(vec![("k", J::s("unreachable"))]),
        TerminatorKind::Drop { place, target, unwind, .. } => {
            let pty = place.ty(body, tcx).ty;
            let (dtors, has_param) = drop_info(tcx, pty, te);
            J::obj(vec![
                ("k", J::s("drop")),
                ("place", place_j(tcx, body, place)),
                ("ty", J::s(&pty.to_string())),
                ("needs_drop", J::Bool(pty.needs_drop(tcx, te))),
                ("dtors", J::Arr(dtors.iter().map(|s| J::s(s)).collect())),
                ("has_param", J::Bool(has_param)),
                ("target", bb_j(*target)),
                ("unwind", unwind_j(unwind)),
                ("line", line),
                ("exp", exp),
            ])
        }
        TerminatorKind::Call { func, args, destination, target, unwind, .. } => {
            let mut v = vec![("k", J::s("call"))];
            match func.const_fn_def() {
                Some((did, gargs)) => v.push(("callee", callee_j(tcx, te, did, gargs))),
                None => {
                    let fty = func.ty(body, tcx);
                    v.push(("callee", J::obj(vec![("indirect", J::Bool(true)), ("ty", J::s(&fty.to_string())), ("op", operand_j(tcx, body, te, func))])));
                }
            }
            v.push(("args", J::Arr(args.iter().map(|a| operand_j(tcx, body, te, &a.node)).collect())));
            v.push(("dest", place_j(tcx, body, destination)));
            v.push(("target", target.map(bb_j).unwrap_or(J::Null)));
            v.push(("unwind", unwind_j(unwind)));
            v.push(("line", line));
            v.push(("exp", exp));
            J::obj(v)
        }
        TerminatorKind::Assert { cond, expected, msg, target, unwind } => J::obj(vec![
            ("k", J::s("assert")),
            ("cond", operand_j(tcx, body, te, cond)),
            ("expected", J::Bool(*expected)),
            ("msg", J::s(&format!("{:?}", msg).chars().take(60).collect::<String>())),
            ("target", bb_j(*target)),
            ("unwind", unwind_j(unwind)),
            ("line", line),
        ]),
        TerminatorKind::FalseEdge { real_target, .. } => J::obj(vec![("k", J::s("goto")), ("target", bb_j(*real_target))]),
        TerminatorKind::FalseUnwind { real_target, .. } => J::obj(vec![("k", J::s("goto")), ("target", bb_j(*real_target))]),
        other => J::obj(vec![("k", J::s("other")), ("text", J::s(&format!("{:?}", other)))]),
    }
}
