"""Anchor tables shared by the rules (DESIGN Appendix C) and small helpers."""
from engine import graph
from engine.graph import Program, Super, fmt, strip

CM = "counter_marker::CounterMarker::"
WCM = "weak::weak_counter_marker::WeakCounterMarker::"
ST = "state::State::"
LL = "lists::LinkedList::"
PC = "lists::PossibleCycles::"
LQ = "lists::LinkedQueue::"
CCBOX = "cc::CcBox::<T>::"
CCBOX0 = "cc::CcBox::<()>::"

# pure getters (no side effect; value depends on the state family given)
GETTERS = {
    CM + "counter": "RC", CM + "tracing_counter": "TC", CM + "is_dropped": "TC",
    CM + "needs_finalization": "FIN", CM + "has_allocated_for_metadata": "META",
    CM + "is_not_marked": "MARK", CM + "is_in_possible_cycles": "MARK", CM + "is_in_list": "MARK",
    CM + "is_in_list_or_queue": "MARK", CM + "_is_in_queue": "MARK",
    WCM + "counter": "WEAK", WCM + "is_accessible": "WEAK",
    ST + "is_collecting": "FLAGS", ST + "is_finalizing": "FLAGS", ST + "is_dropping": "FLAGS", ST + "is_tracing": "FLAGS",
    ST + "allocated_bytes": "BYTES", ST + "executions_count": "EXEC",
    PC + "size": "PCSIZE", PC + "is_empty": "PCSIZE", PC + "first": "PCSIZE",
    LL + "is_empty": "LIST", LL + "first": "LIST", LQ + "is_empty": "LIST", LQ + "peek": "LIST",
    "cc::Cc::<T>::strong_count": "RC",
}
WRITERS = {
    "MARK": [CM + "mark", LL + "remove_first", PC + "remove_first", LQ + "poll", PC + "mark_self_and_append"],
    "TC": [CM + "reset_tracing_counter", CM + "increment_tracing_counter", CM + "_decrement_tracing_counter", CM + "set_dropped"],
    "RC": [CM + "increment_counter", CM + "decrement_counter"],
    "FIN": [CM + "set_finalized"],
    "META": [CM + "set_allocated_for_metadata"],
    "WEAK": [WCM + "increment_counter", WCM + "decrement_counter", WCM + "set_accessible"],
    "FLAGS": [ST + "set_collecting", ST + "set_finalizing", ST + "set_dropping"],
    "BYTES": [ST + "record_allocation", ST + "record_deallocation"],
}
MUTATORS = sorted({w for ws in WRITERS.values() for w in ws} | {
    PC + "add", PC + "remove", PC + "swap_list", LL + "add", LL + "remove", LQ + "add",
    ST + "increment_executions_count",
    "utils::cc_dealloc", "utils::cc_alloc", "utils::dealloc_other", "utils::alloc_other",
    "cc::add_to_list", "cc::remove_from_list", CCBOX + "drop_metadata", CCBOX + "get_or_init_metadata",
})

graph.PURE_GETTERS.update(GETTERS.keys())

# functions that structure the algorithm: never expanded unless a rule asks for it
STRUCT = [
    "collect_cycles", "trigger_collection", "adjust_trigger_point", "collect", "__collect", "deallocate_list",
    "trace_counting", "__trace_counting", "trace_roots", "__trace_roots",
    "cc::add_to_list", "cc::remove_from_list",
    CCBOX + "new", CCBOX + "layout", CCBOX + "vtable", CCBOX + "get_or_init_metadata", CCBOX + "drop_metadata",
    CCBOX + "get_metadata_unchecked",
    CCBOX0 + "trace_inner", CCBOX0 + "finalize_inner", CCBOX0 + "drop_inner", CCBOX0 + "get_traceable", CCBOX0 + "trace",
    "cc::Metadata::new", "cc::BoxedMetadata::new",
    "utils::cc_alloc", "utils::cc_dealloc", "utils::alloc_other", "utils::dealloc_other",
    "config::Config::should_collect", "config::Config::adjust",
    "cc::Cc::<T>::new", "cc::Cc::<T>::mark_alive", "cc::Cc::<T>::try_unwrap",
    "<cc::Cc<T> as std::ops::Drop>::drop", "<cc::Cc<T> as std::clone::Clone>::clone",
    "<weak::Weak<T> as std::ops::Drop>::drop", "<weak::Weak<T> as std::clone::Clone>::clone",
    "weak::Weak::<T>::upgrade", "weak::Weak::<T>::strong_count", "weak::<impl cc::Cc<T>>::downgrade",
    "weak::<impl cc::Cc<T>>::new_cyclic",
    "<cc::Cc<T> as trace::Trace>::trace",
]


def all_primitives():
    s = set(GETTERS) | set(MUTATORS) | set(STRUCT)
    for p in (CM, WCM, ST, LL, PC, LQ):
        pass
    return s


def default_opaque(F):
    """Opaque set for supergraphs: every anchor that exists in this configuration, plus every method
    of the counter/list/state types (so that new methods there are events, not inlined noise)."""
    s = set()
    for f in F.fns.values():
        np = f.npath
        if np in GETTERS or np in MUTATORS or np in STRUCT:
            s.add(np)
        elif np.startswith((CM, WCM, ST, LL, PC, LQ)) and "{closure" not in np:
            s.add(np)
    return s


class AnchorMissing(Exception):
    def __init__(self, name):
        self.name = name
        super().__init__(name)


def anchor(F, npath):
    f = F.fn(npath)
    if f is None:
        raise AnchorMissing(npath)
    return f


def main_closures(P, fn):
    """Closures lexically inside fn (any depth)."""
    res = []
    for f in P.fns.values():
        if f.kind == "closure" and f.root == fn.id:
            res.append(f)
    return res


def short(np):
    return np.replace("counter_marker::CounterMarker::", "CM::").replace("weak::weak_counter_marker::WeakCounterMarker::", "WCM::") \
        .replace("state::State::", "State::").replace("lists::", "")


def obj_of(e):
    """Identity of the managed box an expression designates: strips reference layers, the
    `.counter_marker` field and the accessor layers; `self.inner` stays as the pointer identity."""
    e = strip(e)
    changed = True
    while changed:
        changed = False
        if isinstance(e, tuple) and e:
            if e[0] == "field" and e[2] in ("counter_marker", "elem", "metadata", "next", "prev"):
                e = strip(e[1])
                changed = True
            elif e[0] == "call" and e[1] in ("cc::CcBox::<T>::counter_marker", "cc::Cc::<T>::counter_marker", "cc::Cc::<T>::inner", "cc::Cc::<T>::inner_ptr", "cc::CcBox::<T>::get_elem", "cc::CcBox::<T>::get_elem_mut") and e[2]:
                e = strip(e[2][0])
                changed = True
            elif e[0] in ("ref", "deref", "unsize"):
                e = strip(e)
                changed = True
    return e
