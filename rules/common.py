"""Anchor tables shared by the rules (DESIGN Appendix C) and small helpers."""
from engine import graph
from engine.graph import Program, Super, fmt, strip
from engine.facts import norm_path

CM = "counter_marker::CounterMarker::"
WCM = "weak::weak_counter_marker::WeakCounterMarker::"
ST = "state::State::"
LL = "lists::LinkedList::"
PC = "lists::PossibleCycles::"
LQ = "lists::LinkedQueue::"
CCBOX = "cc::CcBox::<T>::"
CCBOX0 = "cc::CcBox::<()>::"

# pure getters (no side effect; value depends on the state family given)
GETTERS = {
    CM + "counter": "RC", CM + "tracing_counter": "TC", CM + "is_dropped": "TC",
    CM + "needs_finalization": "FIN", CM + "has_allocated_for_metadata": "META",
    CM + "is_not_marked": "MARK", CM + "is_in_possible_cycles": "MARK", CM + "is_in_list": "MARK",
    CM + "is_in_list_or_queue": "MARK", CM + "_is_in_queue": "MARK",
    WCM + "counter": "WEAK", WCM + "is_accessible": "WEAK",
    ST + "is_collecting": "FLAGS", ST + "is_finalizing": "FLAGS", ST + "is_dropping": "FLAGS", ST + "is_tracing": "FLAGS",
    ST + "allocated_bytes": "BYTES", ST + "executions_count": "EXEC",
    PC + "size": "PCSIZE", PC + "is_empty": "PCSIZE", PC + "first": "PCSIZE",
    LL + "is_empty": "LIST", LL + "first": "LIST", LQ + "is_empty": "LIST", LQ + "peek": "LIST",
    "cc::Cc::<T>::strong_count": "RC",
}
WRITERS = {
    "MARK": [CM + "mark", LL + "remove_first", PC + "remove_first", LQ + "poll", PC + "mark_self_and_append"],
    "TC": [CM + "reset_tracing_counter", CM + "increment_tracing_counter", CM + "_decrement_tracing_counter", CM + "set_dropped"],
    "RC": [CM + "increment_counter", CM + "decrement_counter"],
    "FIN": [CM + "set_finalized"],
    "META": [CM + "set_allocated_for_metadata"],
    "WEAK": [WCM + "increment_counter", WCM + "decrement_counter", WCM + "set_accessible"],
    "FLAGS": [ST + "set_collecting", ST + "set_finalizing", ST + "set_dropping"],
    "BYTES": [ST + "record_allocation", ST + "record_deallocation"],
}
MUTATORS = sorted({w for ws in WRITERS.values() for w in ws} | {
    PC + "add", PC + "remove", PC + "swap_list", LL + "add", LL + "remove", LQ + "add",
    ST + "increment_executions_count",
    "utils::cc_dealloc", "utils::cc_alloc", "utils::dealloc_other", "utils::alloc_other",
    "cc::add_to_list", "cc::remove_from_list", CCBOX + "drop_metadata", CCBOX + "get_or_init_metadata",
})

graph.PURE_GETTERS.update(GETTERS.keys())

# functions that structure the algorithm: never expanded unless a rule asks for it
STRUCT = [
    "collect_cycles", "trigger_collection", "adjust_trigger_point", "collect", "__collect", "deallocate_list",
    "trace_counting", "__trace_counting", "trace_roots", "__trace_roots",
    "cc::add_to_list", "cc::remove_from_list",
    CCBOX + "new", CCBOX + "layout", CCBOX + "vtable", CCBOX + "get_or_init_metadata", CCBOX + "drop_metadata",
    CCBOX + "get_metadata_unchecked",
    CCBOX0 + "trace_inner", CCBOX0 + "finalize_inner", CCBOX0 + "drop_inner", CCBOX0 + "get_traceable", CCBOX0 + "trace",
    "cc::Metadata::new", "cc::BoxedMetadata::new",
    "utils::cc_alloc", "utils::cc_dealloc", "utils::alloc_other", "utils::dealloc_other",
    "config::Config::should_collect", "config::Config::adjust",
    "cc::Cc::<T>::new", "cc::Cc::<T>::mark_alive", "cc::Cc::<T>::try_unwrap",
    "<cc::Cc<T> as std::ops::Drop>::drop", "<cc::Cc<T> as std::clone::Clone>::clone",
    "<weak::Weak<T> as std::ops::Drop>::drop", "<weak::Weak<T> as std::clone::Clone>::clone",
    "weak::Weak::<T>::upgrade", "weak::Weak::<T>::strong_count", "weak::<impl cc::Cc<T>>::downgrade",
    "weak::<impl cc::Cc<T>>::new_cyclic",
    "<cc::Cc<T> as trace::Trace>::trace",
    "<cc::CcBox<T> as cc::InternalTrace>::finalize_elem", "<cc::CcBox<T> as cc::InternalTrace>::drop_elem",
    "<cc::CcBox<T> as trace::Trace>::trace", "<cc::CcBox<T> as trace::Finalize>::finalize",
    "<lists::Iter<'a> as std::iter::Iterator>::next", "<lists::ListIter as std::iter::Iterator>::next",
]
LIST_NEXT = ("std::iter::Iterator::next", "<lists::Iter<'a> as std::iter::Iterator>::next")


def all_primitives():
    s = set(GETTERS) | set(MUTATORS) | set(STRUCT)
    for p in (CM, WCM, ST, LL, PC, LQ):
        pass
    return s


def default_opaque(F):
    """Opaque set for supergraphs: every anchor that exists in this configuration, plus every method
    of the counter/list/state types (so that new methods there are events, not inlined noise)."""
    s = set()
    for f in F.fns.values():
        np = f.npath
        if np in GETTERS or np in MUTATORS or np in STRUCT:
            s.add(np)
        elif np.startswith((CM, WCM, ST, LL, PC, LQ)) and "{closure" not in np and not _compound_method(F, f):
            s.add(np)
    s |= set(graph.WRAPPERS)
    return s


def _compound_method(F, f):
    """A method of one of the primitive types that is not in the anchor tables and is itself written in terms of other methods
    of the same type (e.g. a `State::replace_dropping` doing is_dropping + set_dropping and building a guard): looked through,
    not treated as a primitive event."""
    if f.npath in GETTERS or f.npath in MUTATORS or f.npath in STRUCT:
        return False
    pre = f.npath.rsplit("::", 1)[0] + "::"
    for b in f.blocks:
        t = b["term"]
        if t["k"] == "call" and not t["callee"].get("indirect"):
            cp = norm_path(t["callee"]["path"])
            if cp.startswith(pre) and cp != f.npath and (cp in GETTERS or cp in MUTATORS):
                return True
    return False


class AnchorMissing(Exception):
    def __init__(self, name):
        self.name = name
        super().__init__(name)


def anchor(F, npath):
    f = F.fn(npath)
    if f is None:
        raise AnchorMissing(npath)
    return f


def main_closures(P, fn):
    """Closures lexically inside fn (any depth)."""
    res = []
    for f in P.fns.values():
        if f.kind == "closure" and f.root == fn.id:
            res.append(f)
    return res


def short(np):
    return np.replace("counter_marker::CounterMarker::", "CM::").replace("weak::weak_counter_marker::WeakCounterMarker::", "WCM::") \
        .replace("state::State::", "State::").replace("lists::", "")


def obj_of(e):
    """Identity of the managed box an expression designates: strips reference layers, the
    `.counter_marker` field and the accessor layers; `self.inner` stays as the pointer identity."""
    e = strip(e)
    changed = True
    while changed:
        changed = False
        if isinstance(e, tuple) and e:
            if e[0] == "field" and e[2] in ("counter_marker", "elem", "metadata", "next", "prev"):
                e = strip(e[1])
                changed = True
            elif e[0] == "call" and e[1] in ("cc::CcBox::<T>::counter_marker", "cc::Cc::<T>::counter_marker", "cc::Cc::<T>::inner", "cc::Cc::<T>::inner_ptr", "cc::CcBox::<T>::get_elem", "cc::CcBox::<T>::get_elem_mut") and e[2]:
                e = strip(e[2][0])
                changed = True
            elif e[0] in ("ret", "call") and e[1] == "cc::CcBox::<()>::get_traceable" and e[2]:
                e = strip(e[2][0])
                changed = True
            elif e[0] in ("ref", "deref", "unsize"):
                e = strip(e)
                changed = True
    return e


def type_head(ty):
    """Head ADT path of a type string: `cc::Cc<weak::X<T>>` -> `cc::Cc`; strips references."""
    t = ty.strip()
    while t.startswith("&"):
        t = t[1:].lstrip()
        if t.startswith("mut "):
            t = t[4:]
        if t.startswith("'"):
            t = t.split(" ", 1)[1] if " " in t else t
    i = t.find("<")
    if i > 0:
        t = t[:i]
    return t.rstrip(":")


def adt_of_type(F, ty):
    from engine.facts import norm_path
    h = norm_path(type_head(ty))
    c = F.adts_by_path.get(h, [])
    return c[0] if len(c) == 1 else None


def mark_of(e):
    """Variant name of a Mark constant expression."""
    e = strip(e)
    if isinstance(e, tuple) and e and e[0] == "agg" and e[1] == "adt" and "Mark::" in e[2]:
        return e[2].rsplit("::", 1)[-1]
    return None


def on_cycle(S, n, exclude=("ui",)):
    """True if node n can reach itself."""
    seen = set()
    stack = [s for s in S.succs(n, None, exclude)]
    while stack:
        x = stack.pop()
        if x is n:
            return True
        if x.idx in seen:
            continue
        seen.add(x.idx)
        stack.extend(S.succs(x, None, exclude))
    return False


def cycle_must_pass(S, H, pred, exclude=("ui", "u")):
    """H lies on a cycle and every path from H back to H passes a node satisfying pred."""
    if not on_cycle(S, H, exclude):
        return False
    seen = set()
    stack = list(S.succs(H, None, exclude))
    while stack:
        x = stack.pop()
        if x is H:
            return False
        if x.idx in seen or pred(x):
            continue
        seen.add(x.idx)
        stack.extend(S.succs(x, None, exclude))
    return True


def loop_heads_applying(S, pred, exclude=("ui", "u")):
    """Switch nodes that head a loop whose every iteration passes a node satisfying pred."""
    cands = [n for n in S.nodes if pred(n)]
    if not cands:
        return []
    heads = []
    for n in S.nodes:
        if n.kind == "switch" and cycle_must_pass(S, n, pred, exclude):
            heads.append(n)
    return heads


WCMH = "weak::Weak::<T>::weak_counter_marker"


def is_self_record_opt(e):
    """Does e denote `the side record of self, if there is one` (an Option): the result of Weak's private accessor, when the crate
    has one, or the `metadata` field of self read directly."""
    e = strip(e)
    if isinstance(e, tuple) and e and e[0] == "ret" and e[1] == WCMH and fmt(strip(e[2][0])).lstrip("&*") == "self":
        return True
    return fmt(e).lstrip("&*") == "self.metadata"


def within_self_record(e):
    """Is e a place inside the side record of self (reached through the accessor's Some payload or through self.metadata)?"""
    s = fmt(strip(e))
    return "self.metadata" in s or "weak_counter_marker(self)" in s


def applied_to_every_element(S, pred, exclude=("ui", "u")):
    """Is a node satisfying pred executed for every element of a list walk - as the body of a loop (loop_heads_applying) or as
    the closure of for_each/fold over an un-adapted `.iter()` (iteration_context)?"""
    if loop_heads_applying(S, pred, exclude):
        return True
    for n in S.nodes:
        if pred(n):
            ic = iteration_context(S, n)
            if ic is not None and ic["every"] and ic["whole"] and ic["item_ok"]:
                return True
    return False


def unwind_must_pass(S, U, pred, avoid_labels=()):
    """Every path that starts with the unwind edge of node U and reaches the root's resume passes a node
    satisfying pred. Returns (ok, n_exits_checked). Vacuous (no unwind edge) returns (True, 0)."""
    starts = [s for (s, lab) in U.succ if lab == "u"]
    root_resumes = [n for (n, lab) in S.resumes]
    direct = any(n is U for (n, lab) in S.resumes if lab == "u")
    if direct:
        return False, 1   # unwinds straight out of the root with nothing in between
    if not starts:
        return True, 0
    ok_all = True
    fst = S.flag_state_after(U)
    for st in starts:
        ok, wit = S.must_pass_flags(st, fst, pred, root_resumes, exclude=("ui",), avoid_labels=avoid_labels)
        if not ok:
            ok_all = False
    return ok_all, len(starts)


def unwind_reach(S, U, avoid_labels=()):
    """Node indices reachable through the unwind edge of U (drop flags tracked from U)."""
    res = set()
    fst = S.flag_state_after(U)
    for (s, lab) in U.succ:
        if lab == "u":
            res |= S.reachable_flags(s, fst, exclude=("ui",), avoid_labels=avoid_labels)
    return res


def flag_opaque(F):
    """Everything except the primitive counter/list/state operations is expanded."""
    s = set()
    for f in F.fns.values():
        np = f.npath
        if np.startswith((CM, WCM, ST, LL, PC, LQ)) and "{closure" not in np and not _compound_method(F, f):
            s.add(np)
    s |= {"utils::cc_alloc", "utils::cc_dealloc", "utils::alloc_other", "utils::dealloc_other"}
    s |= set(graph.WRAPPERS)
    return s


# ---- literal helpers ----------------------------------------------------------------------------

def getter_of(e):
    e = strip(e)
    if isinstance(e, tuple) and e and e[0] == "call" and e[2]:
        return e[1], obj_of(e[2][0])
    if isinstance(e, tuple) and e and e[0] == "call":
        return e[1], None
    return None, None


def has_lit(lits, getter, truth=True, obj=None):
    """A boolean getter literal on (optionally) a given object."""
    for a, t in lits:
        if a[0] == "bool" and t is truth:
            g, o = getter_of(a[1])
            if g == getter and (obj is None or o == obj):
                return True
    return False


def has_cmp_const(lits, getter, op, const, truth=True, obj=None):
    """Literal `getter(obj) op const` (canonical form: constants on the right, Ne folded into Eq)."""
    for a, t in lits:
        if a[0] == "cmp" and a[1] == op and t is truth:
            g, o = getter_of(a[2])
            if g == getter and a[3] == ("const", const) and (obj is None or o == obj):
                return True
    return False


def has_cmp_getters(lits, g1, g2, op="Eq", truth=True, obj=None):
    """Literal `g1(obj) op g2(obj)` in either operand order (Eq only is symmetric)."""
    for a, t in lits:
        if a[0] == "cmp" and a[1] == op and t is truth:
            x, ox = getter_of(a[2])
            y, oy = getter_of(a[3])
            if {x, y} == {g1, g2} and ox == oy and (obj is None or ox == obj):
                return True
    return False


def lits_str(lits):
    from engine import tables
    out = []
    for a, t in sorted(lits, key=repr):
        s = tables.fmt_atom(a)
        if t is True:
            out.append(s)
        elif t is False:
            out.append("!" + s)
        else:
            out.append("%s:%s" % (s, t))
    return "{" + ", ".join(out) + "}"


def is_call(n, *names):
    return n.ci is not None and not n.inlined and n.ci["k"] == "call" and n.ci["npath"] in names


def root_of(P, f):
    """Enclosing top-level function: closures map to their parent; methods of types/impls declared inside a
    function body (local guard types) map to that function."""
    if f.kind == "closure":
        f = P.fns[f.root]
    fid = f.id
    cur = fid
    while "::" in cur:
        cur = cur.rsplit("::", 1)[0]
        g = P.fns.get(cur)
        if g is not None and g.kind != "closure":
            return root_of(P, g)
        if g is not None and g.kind == "closure":
            return root_of(P, g)
    return f


def site_root(P, f):
    """Function whose supergraph a call site in f is analysed in: a closure's parent; a plain fn nested in another fn's body
    climbs to that fn (it is expanded there); methods of impls - also of types declared inside a body - are their own root."""
    if f.kind == "closure":
        f = P.fns[f.root]
    while not f.impl_of:
        cur = f.id
        g = None
        while "::" in cur:
            cur = cur.rsplit("::", 1)[0]
            g = P.fns.get(cur)
            if g is not None:
                break
        if g is None or g is f:
            break
        f = P.fns[g.root] if g.kind == "closure" else g
    return f


def _is_anchor_fn(P, f):
    np = f.npath
    if np in STRUCT or np in GETTERS or np in MUTATORS:
        return True
    if np.startswith((CM, WCM, ST, LL, PC, LQ)):
        return True
    if f.vis == "pub":
        return True
    if f.impl_of and f.impl_of.get("trait"):
        return True     # trait methods are called through the trait; they are owners in their own right
    return False


def scope_guard_constructors(P, f):
    """If f is the Drop::drop of a crate type that is only ever used as a scope guard - every value is built (directly, or by a
    constructor function returning it) into a local that is then just dropped at scope end (or handed to mem::forget), never moved
    into a call, an aggregate or a return value - return the functions holding those locals: the guard's destructor runs as part
    of *their* scope, wherever the type is declared."""
    cache = P.__dict__.setdefault("_sgc", {})
    if f.id in cache:
        return cache[f.id]
    res = []
    io = f.impl_of or {}
    if io.get("trait") and io["trait"].endswith("ops::Drop") and f.npath.endswith("::drop"):
        head = type_head(io.get("self_ty", ""))
        adt = adt_of_type(P.F, head)
        # public types and the value types the rules name (lists, pointers, wrappers) have destructors that are operations in
        # their own right, whoever holds the value; only crate-private helper types can be scope guards
        from engine.facts import KNOWN_TYPES
        guard = adt is not None and adt.get("vis") != "pub" and (head not in KNOWN_TYPES or head == "utils::ResetMarkDropGuard")
        makers = set()        # functions whose return value is a freshly built X
        holders = {}          # fn id -> set of locals holding a fresh X
        for g in P.fns.values():
            for b in g.blocks:
                for st in b["stmts"]:
                    if st["k"] == "assign" and st["rv"]["k"] == "agg" and st["rv"].get("agg") == "adt" and type_head(norm_path(st["rv"].get("adt", ""))) == head:
                        if st["place"]["p"]:
                            guard = False     # built into a field: a value, not a scope guard
                        elif st["place"]["l"] == 0:
                            makers.add(g.id)
                        else:
                            holders.setdefault(g.id, set()).add(st["place"]["l"])
        grew = True
        rounds = 0
        while grew and guard and rounds < 4:
            grew = False
            rounds += 1
            for g in P.fns.values():
                for bi, b in enumerate(g.blocks):
                    t = b["term"]
                    if t["k"] != "call":
                        continue
                    ci = P.classify(g, bi)
                    if not ci or not any(tf.id in makers for tf in ci.get("targets", [])):
                        continue
                    d = t["dest"]
                    if d["p"]:
                        guard = False
                    elif d["l"] == 0:
                        if g.id not in makers:
                            makers.add(g.id); grew = True
                    elif d["l"] not in holders.setdefault(g.id, set()):
                        holders[g.id].add(d["l"]); grew = True
        builders = []
        for gid, locs in holders.items():
            if not guard:
                break
            g = P.fns[gid]
            locs = set(locs)
            builders.append(g)
            # plain moves into another local (`_t = move _guard; forget(move _t)`) are the same value
            grew = True
            while grew:
                grew = False
                for b in g.blocks:
                    for st in b["stmts"]:
                        if st["k"] == "assign" and st["rv"]["k"] == "use" and not st["place"]["p"] and st["place"]["l"] != 0 and st["place"]["l"] not in locs:
                            o = st["rv"]["op"]
                            if o["k"] in ("copy", "move") and o["place"]["l"] in locs and not o["place"]["p"]:
                                locs.add(st["place"]["l"])
                                grew = True
            for b in g.blocks:
                for st in b["stmts"]:
                    if st["k"] != "assign":
                        continue
                    if st["rv"]["k"] == "use" and not st["place"]["p"] and st["place"]["l"] in locs:
                        continue
                    rv = st["rv"]
                    ops = [rv["op"]] if rv["k"] in ("use", "cast") else (rv["ops"] if rv["k"] == "agg" else [])
                    for o in ops:
                        if o["k"] in ("copy", "move") and o["place"]["l"] in locs and not o["place"]["p"]:
                            guard = False
                t = b["term"]
                if t["k"] == "call":
                    for a in t["args"]:
                        if a["k"] in ("copy", "move") and a["place"]["l"] in locs and not a["place"]["p"]:
                            if norm_path(t["callee"].get("path", "")) != "std::mem::forget":
                                guard = False
        if guard and builders:
            res = builders
    cache[f.id] = res
    return res


def lift_owner(P, f, depth=0, seen=None):
    """Owners of a call site: the enclosing top-level function, or - when that is a private non-anchor helper
    (an extract-function refactor) - the functions that call the helper, transitively."""
    seen = seen if seen is not None else set()
    r = root_of(P, f)
    if r.id in seen or depth > 6:
        return {r.npath}
    seen.add(r.id)
    cons = scope_guard_constructors(P, r)
    if cons:
        out = set()
        for cf in cons:
            out |= lift_owner(P, cf, depth + 1, seen)
        return out
    if _is_anchor_fn(P, r):
        return {r.npath}
    callers = P.callers(r.id)
    if not callers:
        return {r.npath}
    out = set()
    for (cf, bb, ci) in callers:
        out |= lift_owner(P, cf, depth + 1, seen)
    return out


def owners_of_calls(P, pred):
    """{owner function npath: [(fn, bb)]} of all call sites satisfying pred(ci) (helpers lifted to their callers)."""
    res = {}
    for (f, bb, ci) in P.call_sites(pred):
        for o in lift_owner(P, f):
            res.setdefault(o, []).append((f, bb))
    return res


def places_of_rv(rv):
    k = rv["k"]
    out = []
    def op(o):
        if o["k"] in ("copy", "move"):
            out.append(o["place"])
    if k == "use":
        op(rv["op"])
    elif k in ("ref", "rawptr", "discr"):
        out.append(rv["place"])
    elif k == "bin":
        op(rv["a"]); op(rv["b"])
    elif k in ("un",):
        op(rv["a"])
    elif k == "cast":
        op(rv["op"])
    elif k == "agg":
        for o in rv["ops"]:
            op(o)
    return out


def field_reads(S, field):
    """(node, place) for every place mentioning a projection on `field` read in statements or call args."""
    res = []
    for n in S.nodes:
        for s in n.stmts:
            if s["k"] == "assign":
                for pl in places_of_rv(s["rv"]):
                    if any(isinstance(e, dict) and e.get("n") == field for e in pl["p"]):
                        res.append((n, pl))
        t = n.term
        if t["k"] == "call":
            for a in t["args"]:
                if a["k"] in ("copy", "move") and any(isinstance(e, dict) and e.get("n") == field for e in a["place"]["p"]):
                    res.append((n, a["place"]))
    return res


def field_writes(S, field):
    res = []
    for n in S.nodes:
        for s in n.stmts:
            if s["k"] == "assign" and any(isinstance(e, dict) and e.get("n") == field for e in s["place"]["p"]):
                res.append((n, s))
    return res


STD_WRITERS = ("std::cell::Cell::<T>::set", "std::cell::Cell::<T>::replace", "std::cell::Cell::<T>::take", "std::ptr::write", "std::ptr::drop_in_place",
               "std::mem::replace", "std::mem::swap", "std::mem::take", "std::alloc::dealloc", "std::alloc::alloc")
EFFECT_FREE_CRATE = ("utils::cold", "state::state", "state::try_state", "config::config")


def effect_calls(events):
    """Calls on a path that can change collector/object state: every crate function that is not a pure getter
    (helpers are inlined, so what remains are anchors), and std cell/pointer writers."""
    out = []
    for x in events:
        ci = x.ci
        if ci["k"] != "call":
            continue
        np = ci["npath"]
        if ci["kind"] in ("crate", "virtual") and np not in GETTERS and np not in EFFECT_FREE_CRATE:
            out.append(x)
        elif np in MUTATORS or np.startswith(STD_WRITERS):
            out.append(x)
    return out


# ---- "once per element of list.iter()" --------------------------------------------------------------------------

def _find_iter_source(e, depth=0):
    """The `LinkedList::iter(list)` / `PossibleCycles::iter(pc)` call an iterator expression is built from."""
    if depth > 12 or not isinstance(e, tuple):
        return None
    if e and e[0] in ("ret", "call") and e[1] in (LL + "iter", PC + "iter") and e[2]:
        return e
    for x in e:
        r = _find_iter_source(x, depth + 1)
        if r is not None:
            return r
    return None


def iteration_context(S, n):
    """If node n runs once per element of `<list>.iter()`, describe the iteration:
    {'pass': node identifying the pass (the for_each/fold call or the loop's next() call), 'list': receiver expr,
     'every': n is on every path of one iteration, 'item_ok': n's first argument is the iteration item, 'adapters': [...]}.
    Works for closures handed to Iterator::for_each/fold and for plain `for x in list.iter()` loops."""
    c = n.ctx
    # (a) inside a closure (possibly nested helpers) attached to for_each / fold
    cc = c
    while cc is not None and cc.via != "closure":
        cc = cc.parent if cc.via in ("call", "virtual") else None
    if cc is not None and cc.call_node is not None and cc.call_node.ci["npath"] in ("std::iter::Iterator::for_each", "std::iter::Iterator::fold"):
        carrier = cc.call_node
        a0 = S.args_of(carrier)[0]
        src = _find_iter_source(a0)
        entry = S.blocks_of[(cc.id, 0)]
        rets = [x for x in S.nodes if x.ctx is cc and x.kind == "return"]
        every, _ = S.must_pass(entry, lambda x: x is n, rets, exclude=("ui", "u", "loop"))
        direct = strip(a0) == src if src is not None else False
        item = S.args_of(n)[0] if n.term.get("args") else None
        return {"pass": carrier, "list": strip(src[2][0]) if src else None, "every": every, "whole": direct,
                "item_ok": item is not None and "cbarg" in fmt(item), "kind": carrier.ci["npath"].rsplit("::", 1)[-1], "closure_ctx": cc}
    # (b) a loop driven by Iterator::next on an iterator built from list.iter()
    for x in S.nodes:
        if x.ctx is not c or x.ci is None or x.ci["k"] != "call" or x.ci["npath"] not in LIST_NEXT or x.inlined:
            continue
        if not on_cycle(S, x, exclude=("ui", "u")):
            continue
        it = S.args_of(x)[0]
        src = _find_iter_source(it)
        if src is None:
            continue
        # n inside this loop?
        if n.idx not in S.reachable(x, exclude=("ui", "u")) or x.idx not in S.reachable(n, exclude=("ui", "u")):
            continue
        every = cycle_must_pass(S, x, lambda y: y is n)
        # adapters between iter() and next(): anything but into_iter/reborrows
        s_it = fmt(strip(it))
        whole = not any(ad in s_it for ad in ("skip(", "take(", "rev(", "filter(", "step_by(", "skip_while(", "take_while(", "chain("))
        item = S.args_of(n)[0] if n.term.get("args") else None
        item_ok = item is not None and "next(" in fmt(item) and " as Some).0" in fmt(item)
        # the loop is left only on None
        exits_ok = True
        return {"pass": x, "list": strip(src[2][0]), "every": every, "whole": whole, "item_ok": item_ok, "kind": "for-loop", "closure_ctx": None}
    return None


# ---- the "has this pass finalized anything" flag of __collect -------------------------------------------------------

def finalize_pass_info(S):
    """How __collect computes whether the pass finalized something. Returns dict(kind='fold'|'loop'|None, ok, detail, acc)
    where acc is the accumulator local (loop form). Cached on S."""
    if hasattr(S, "_fpi"):
        return S._fpi
    info = {"kind": None, "ok": False, "detail": "finalize_inner is not called", "acc": None}
    fis = [n for n in S.calls_to(CCBOX0 + "finalize_inner")]
    for n in fis:
        ctx = n.ctx
        if ctx.via == "closure" and ctx.call_node is not None and ctx.call_node.ci["npath"] == "std::iter::Iterator::fold":
            info = {"kind": "fold", "ok": True, "detail": "fold closure", "acc": None}
            break
        if not on_cycle(S, n, exclude=("ui", "u")):
            info["detail"] = "finalize_inner is not called in a loop over the list"
            continue
        fn = ctx.fn
        defs = S._defs(fn)
        res = ("ret", CCBOX0 + "finalize_inner")
        for L, ds in defs.items():
            if fn.locals[L]["ty"] != "bool" or len(ds) < 2:
                continue
            init_false = uses = False
            ok = True
            for d in ds:
                if d[0] != "stmt":
                    ok = False
                    break
                nd = S.blocks_of.get((ctx.id, d[1]))
                in_loop = nd is not None and on_cycle(S, nd, exclude=("ui", "u"))
                v = strip(S.resolve_rv(ctx, fn.blocks[d[1]]["stmts"][d[2]]["rv"], None))
                if v == ("const", 0) and not in_loop:
                    init_false = True
                elif v == ("const", 1) and in_loop:
                    lits = S.literals_at(nd, exclude=("ui", "u"))
                    if any(a[0] == "bool" and strip(a[1])[:2] == res and t is True for a, t in lits):
                        uses = True
                    else:
                        ok = False
                elif isinstance(v, tuple) and v and v[0] == "bin" and v[1] == "BitOr" and in_loop:
                    a, b = strip(v[2]), strip(v[3])
                    is_acc = lambda z: isinstance(z, tuple) and z[:1] == ("phi",) and z[2] == L
                    is_res = lambda z: isinstance(z, tuple) and z[:2] == res
                    if (is_acc(a) and is_res(b)) or (is_acc(b) and is_res(a)):
                        uses = True
                    else:
                        ok = False
                else:
                    ok = False
            if ok and init_false and uses:
                info = {"kind": "loop", "ok": True, "detail": "accumulator `%s` starts false and only ORs finalize_inner's result in" % fn.local_name(L), "acc": (ctx.id, L)}
                break
        else:
            info = {"kind": "loop", "ok": False, "acc": None,
                    "detail": "the result of finalize_inner does not OR into a boolean accumulator that starts false (e.g. it is plainly assigned: only the last element would decide whether the set is re-examined)"}
        break
    S._fpi = info
    return info


def is_has_finalized(S, e):
    """Does expression e denote the pass's `has_finalized` value?"""
    e = strip(e)
    if "fold(" in fmt(e) and "finalize" not in fmt(e)[:0]:
        if isinstance(e, tuple) and e and e[0] in ("ret", "call") and e[1] == "std::iter::Iterator::fold":
            return True
    info = finalize_pass_info(S)
    if info.get("acc") and isinstance(e, tuple) and e and e[0] == "phi" and (e[1], e[2]) == info["acc"]:
        return True
    return False


# ---- the crate's closure-taking wrappers (higher-order table entries) ---------------------------------------------

def check_wrappers(R, F, P, cfg, rule):
    """The supergraph attaches the closure argument of state()/try_state()/config() with multiplicities taken from a
    table (engine.graph.HIGHER_ORDER). This rule checks the table against the wrappers' own bodies: the closure is
    called at most once on every path, never in a loop, and at least one path calls it; `state()` cannot return
    normally without having called it (its fallback closure diverges)."""
    from engine import graph, tables
    R.doc(rule, "the closure-call multiplicities assumed for the crate wrappers state/try_state/config ((1,1), (0,1), (0,1)) agree with their bodies")
    for w in graph.WRAPPERS:
        f = F.fn(w)
        if f is None:
            if w == "config::config" and not F.has("auto-collect"):
                continue
            raise AnchorMissing(w)
        S = Super(P, f, opaque=set())
        fcalls = [n for n in S.nodes if n.ci is not None and n.ci["k"] == "call" and n.ci.get("kind") == "wrapper_f" and not n.inlined]
        # the closure parameter handed on as it is to LocalKey::with / try_with (which call it once, try_with at most once)
        for n in S.nodes:
            if n.ci is not None and n.ci["k"] == "call" and n.ci["npath"] in ("std::thread::LocalKey::<T>::try_with", "std::thread::LocalKey::<T>::with"):
                if any(strip(a)[:1] == ("param",) and strip(a)[2] == f.arg_count and f.arg_count >= 1 for a in S.args_of(n)[1:]):
                    fcalls.append(n)
        loops = [n for n in fcalls if on_cycle(S, n, exclude=("ui", "u"))]
        paths = tables.normal_paths(S, limit=5000)
        counts = sorted({len([x for x in p.events if x in fcalls]) for p in paths})
        mn, mx = graph.HIGHER_ORDER[w]
        ok = bool(fcalls) and not loops and counts and max(counts) <= 1 and 1 in counts
        det = "calls of the closure parameter per normal path: %s; in a loop: %s" % (counts, bool(loops))
        if w == "state::state":
            # a normal return without the call is impossible: the value goes through unwrap_or_else(<diverging closure>)
            rv = None
            for p in paths:
                rv = p.retval()
            div = False
            if isinstance(rv, tuple) and rv and rv[0] in ("call", "ret") and rv[1].endswith("unwrap_or_else"):
                env = strip(rv[2][1])
                if isinstance(env, tuple) and env and env[0] == "env" and env[1] in P.fns:
                    cf = P.fns[env[1]]
                    div = not any(b["term"]["k"] == "return" and not b["cleanup"] and _reachable_block(cf, i) for i, b in enumerate(cf.blocks))
            ok = ok and div
            det += "; fallback of unwrap_or_else diverges: %s" % div
        R.inst(rule, "wrapper:%s" % w, ok, "%s (table: min %s, max %s): %s" % (w, mn, mx, det), where=f.span, cfg=cfg)
    check_indirect_calls(R, F, P, cfg, rule)


def check_indirect_calls(R, F, P, cfg, rule):
    """The may-run-user-code sets and the phase-flag interpretation follow direct, virtual and closure calls. A call through a
    fn pointer is followed only when its value is, at that site, a known function item of the crate (the supergraph then treats
    it as a direct call); any other indirect call would be a hole in those analyses and is reported."""
    sites = P.call_sites(lambda c: c.get("kind") == "indirect")
    bad = []
    for (f, bb, ci) in sites:
        resolved = 0
        total = 0
        for o in sorted(lift_owner(P, f)):
            rf = F.fn(o)
            if rf is None:
                continue
            S = Super(P, rf, opaque=default_opaque(F) - {rf.npath})
            for n in S.nodes:
                if n.ctx.fn is f and n.bb == bb and n.ci is not None:
                    total += 1
                    if n.ci.get("resolved_indirect"):
                        resolved += 1
        if total == 0 or resolved != total:
            bad.append("%s bb%d (%s): resolved in %d of %d expansions" % (f.npath, bb, ci["term"]["callee"].get("ty", "?"), resolved, total))
    R.inst(rule, "indirect-calls", not bad, "%d call(s) through fn pointers in the crate; not resolvable to a crate function item where they are expanded: %s" % (len(sites), bad or "none"), cfg=cfg, nontrivial=bool(sites))


def _reachable_block(fn, target):
    seen = set()
    st = [0]
    while st:
        b = st.pop()
        if b in seen:
            continue
        seen.add(b)
        if b == target:
            return True
        t = fn.blocks[b]["term"]
        k = t["k"]
        if k == "goto":
            st.append(t["target"])
        elif k == "switch":
            st.extend(bb for _, bb in t["targets"])
            st.append(t["otherwise"])
        elif k in ("call", "drop", "assert"):
            if t.get("target") is not None:
                st.append(t["target"])
    return False


# ---- the counter words' bit layout, read from the code that uses it (constant *names* are only labels) ----------------

def _bin_consts(f, op):
    """integer constants that are an operand of a `op` binary rvalue in f (own body only)."""
    out = []
    for b in f.blocks:
        for s in b["stmts"]:
            if s["k"] == "assign" and s["rv"]["k"] == "bin" and s["rv"]["op"] == op:
                for o in (s["rv"]["a"], s["rv"]["b"]):
                    if o["k"] == "const" and isinstance(o.get("val"), int):
                        out.append(o["val"])
    return out


def _assigned_consts(f):
    out = []
    for b in f.blocks:
        for s in b["stmts"]:
            if s["k"] == "assign" and s["rv"]["k"] == "use" and s["rv"]["op"]["k"] == "const" and isinstance(s["rv"]["op"].get("val"), int) and s["rv"]["op"].get("ty") == "u16":
                out.append(s["rv"]["op"]["val"])
        t = b["term"]
        if t["k"] == "call":
            for a in t["args"]:
                if a["k"] == "const" and isinstance(a.get("val"), int) and a.get("ty") == "u16":
                    out.append(a["val"])
    return out


def _one(vals):
    s = set(vals)
    return next(iter(s)) if len(s) == 1 else None


def word_layout(F):
    """{'CMASK', 'MAX', 'FM', 'FB', 'BM', 'marks', 'INIT'} of the strong word pair and {'WCMASK', 'WMAX', 'AM', 'WINIT'} of the weak
    word, each taken from the function that *uses* it: the mask a getter ANDs with, the limit an increment compares with, the
    values a constructor stores. None when the using function does not have exactly one such constant."""
    L = {}
    g = lambda n: F.fn(n)
    f = g(CM + "counter")
    L["CMASK"] = _one(_bin_consts(f, "BitAnd")) if f else None
    f = g(CM + "increment_counter")
    L["MAX"] = F.const("counter_marker::MAX")     # pub(crate), shared with other modules; by use when it is not found under that name
    if L["MAX"] is None and f:
        L["MAX"] = _one([v for v in _bin_consts(f, "Eq") + _bin_consts(f, "Ne") if v != L["CMASK"]])
    f = g(CM + "is_in_list_or_queue")
    L["FB"] = _one(_bin_consts(f, "BitAnd")) if f else None
    f = g(CM + "is_in_possible_cycles")
    L["BM"] = _one(_bin_consts(f, "BitAnd")) if f else None
    marks = {}
    for nm in ("is_in_possible_cycles", "is_in_list", "is_in_queue"):
        f = g(CM + nm)
        marks[nm] = _one(_bin_consts(f, "Eq")) if f else None
    L["marks_by_getter"] = marks
    f = g(CM + "is_finalized") or g(CM + "needs_finalization")
    L["FM"] = _one(_bin_consts(f, "BitAnd")) if f else None
    f = g(CM + "has_allocated_for_metadata")
    L["MB"] = _one(_bin_consts(f, "BitAnd")) if f else None
    f = g(CM + "new_with_counter_to_one")
    L["INIT"] = sorted(set(_assigned_consts(f))) if f else None
    f = g(WCM + "counter")
    L["WCMASK"] = _one(_bin_consts(f, "BitAnd")) if f else None
    f = g(WCM + "increment_counter")
    L["WMAX"] = F.const("weak::weak_counter_marker::MAX")
    if L["WMAX"] is None and f:
        L["WMAX"] = _one(_bin_consts(f, "Eq") + _bin_consts(f, "Ne"))
    f = g(WCM + "is_accessible")
    L["AM"] = _one(_bin_consts(f, "BitAnd")) if f else None
    f = g(WCM + "new")
    L["WINIT"] = sorted(set(_assigned_consts(f))) if f else None
    return L
