"""C03 - Each value is dropped at most once; each allocation is freed exactly once, with its layout."""
from engine.graph import Super, fmt, strip, U_KINDS
from engine import tables
from .common import *

LEVEL = "other"
EXPLANATION = ("Structural necessary conditions of C03 on the MIR facts, every feature configuration: (R3.1) layout provenance - cc_alloc receives Layout::new::<CcBox<T>>() for "
               "the T of the box it returns, the stored fat pointer is an unsizing cast of that same pointer, every cc_dealloc receives CcBox::layout() of the very box it frees, "
               "alloc_other/dealloc_other agree by type, CcBox is repr(C) with the payload last and the new_cyclic wrapper is repr(transparent): equal layouts for every T "
               "(any size/alignment, ZST, over-aligned) by construction; (R3.2) in every freeing function layout() < drop_metadata() < cc_dealloc on the same box, once each, "
               "and nothing touches the box afterwards; (R3.3) payload drop precedes and is followed by the free on the reference-count path, and in deallocate_list the whole "
               "destructor pass precedes the freeing pass while members stay marked; (R3.4) try_unwrap moves the value out and never drops; (R3.5) the weak side record is "
               "released only under the two exact guard sets; (R3.6) the new_cyclic panic guard never drops a payload; (R3.7) the list iterator reads the link before yielding "
               "the node; union fields of the box header are read only under the matching flag. Not decided: that no object can enter the reclaim set twice (protocol argument).")


def check(R, F, P, cfg):
    weak = F.has("weak-ptrs")
    DO = default_opaque(F)

    # ---- R3.1 layout provenance --------------------------------------------------------------------------
    R.doc("R3.1", "allocation layout = Layout::new::<CcBox<T>>() of the pointer type written; deallocation layout = CcBox::layout() of the box freed; repr facts the casts rely on")
    nb = anchor(F, CCBOX + "new")
    S = Super(P, nb, opaque=DO - {nb.npath})
    al = S.calls_to("utils::cc_alloc")
    for n in al:
        a = S.args_of(n)[0]
        ok = isinstance(a, tuple) and a[0] == "call" and a[1] == "std::alloc::Layout::new" and len(a) > 3 and a[3] == ("cc::CcBox<T>",)
        tsub = n.term["callee"]["substs"]
        R.inst("R3.1", "alloc-layout", ok and tsub == ["T"], "cc_alloc::<%s>(%s%s): required Layout::new::<cc::CcBox<T>>()" % (tsub, fmt(a), list(a[3]) if len(a) > 3 else ""), where=n.where(), cfg=cfg)
    R.floor("R3.1/alloc", cfg, 1, len(al))
    # the written header's metadata is built from the same pointer, the write goes to the same pointer
    wr = S.calls_to("std::ptr::write")
    for n in wr:
        a = S.args_of(n)
        ptr = strip(a[0])
        ok = isinstance(ptr, tuple) and ptr[0] == "ret" and ptr[1] == "utils::cc_alloc"
        md = [x for x in S.calls_to("cc::Metadata::new") if strip(S.args_of(x)[0]) == ptr]
        R.inst("R3.1", "header-from-same-pointer", ok and bool(md), "ptr::write target %s is the cc_alloc result=%s; Metadata::new receives the same pointer=%s" % (fmt(ptr), ok, bool(md)), where=n.where(), cfg=cfg)
    mn = anchor(F, "cc::Metadata::new")
    S2 = Super(P, mn, opaque=DO - {mn.npath})
    uns = []
    for n in S2.nodes:
        for s in n.stmts:
            if s["k"] == "assign" and s["rv"]["k"] == "cast" and "Unsize" in s["rv"]["kind"]:
                src = strip(S2.resolve_op(n.ctx, s["rv"]["op"]))
                uns.append((n, src, s["rv"]["ty"]))
    ok = len(uns) >= 1 and all(u[1] == ("param", "cc_box", 1) and "dyn cc::InternalTrace" in u[2] for u in uns)
    R.inst("R3.1", "fat-pointer-unsize", ok, "Metadata::new unsizes %s to %s (required: its own cc_box parameter to dyn InternalTrace)" % ([fmt(u[1]) for u in uns], [u[2] for u in uns]), where=mn.span, cfg=cfg)
    ly = anchor(F, CCBOX + "layout")
    S3 = Super(P, ly, opaque=DO - {ly.npath})
    ps = tables.normal_paths(S3)
    ok = len(ps) == 1
    if ok:
        rv = ps[0].retval()
        ok = isinstance(rv, tuple) and rv[0] == "call" and rv[1] == "std::alloc::Layout::for_value" and "fat_ptr" in fmt(rv[2][0]) and "vtable(self)" in fmt(rv[2][0])
    R.inst("R3.1", "layout-from-stored-fat-pointer", ok, "CcBox::layout() = %s (required: Layout::for_value of the fat pointer stored for this box)" % (fmt(ps[0].retval()) if ps else "?"), where=ly.span, cfg=cfg)
    # every cc_dealloc layout argument
    nd = 0
    for (f, bb, ci) in P.call_sites(lambda c: c["npath"] == "utils::cc_dealloc"):
        rootf = site_root(P, f)
        Sx = Super(P, rootf, opaque=DO - {rootf.npath})
        for n in [x for x in Sx.calls_to("utils::cc_dealloc") if x.ctx.fn is f and x.bb == bb]:
            nd += 1
            a = Sx.args_of(n)
            box = obj_of(a[0])
            lay = strip(a[1])
            ok = isinstance(lay, tuple) and lay[0] == "ret" and lay[1] == CCBOX + "layout" and obj_of(lay[2][0]) == box
            R.inst("R3.1", "dealloc-layout:%s" % rootf.npath, ok, "cc_dealloc(%s, %s): required layout() of the same box" % (fmt(box), fmt(lay)), where=n.where(), cfg=cfg)
    R.floor("R3.1/dealloc", cfg, 3 + (1 if weak else 0), nd)
    for fname in ("utils::alloc_other", "utils::dealloc_other"):
        f = F.fn(fname)
        if f is None:
            if weak:
                raise AnchorMissing(fname)
            continue
        Sx = Super(P, f, opaque=DO - {fname})
        raw = Sx.calls_to("std::alloc::alloc", "std::alloc::dealloc")
        for n in raw:
            a = Sx.args_of(n)
            lay = strip(a[-1])
            ok = isinstance(lay, tuple) and lay[0] == "call" and lay[1] == "std::alloc::Layout::new" and len(lay) > 3 and lay[3] == ("T",)
            R.inst("R3.1", "other-layout:%s" % fname, ok, "%s uses layout %s%s (required Layout::new::<T>() of its own T)" % (fname, fmt(lay), list(lay[3]) if len(lay) > 3 else ""), where=n.where(), cfg=cfg)
    # raw alloc/dealloc in cc_alloc / cc_dealloc use the layout passed in
    for fname, raw in (("utils::cc_alloc", "std::alloc::alloc"), ("utils::cc_dealloc", "std::alloc::dealloc")):
        f = anchor(F, fname)
        Sx = Super(P, f, opaque=DO - {fname})
        for n in Sx.calls_to(raw):
            lay = strip(Sx.args_of(n)[-1])
            R.inst("R3.1", "raw-layout:%s" % fname, lay == ("param", "layout", 1 if fname.endswith("cc_alloc") else 2), "%s passes %s to %s (required: its own `layout` parameter)" % (fname, fmt(lay), raw), where=n.where(), cfg=cfg)
    # repr facts
    ccbox = adt_of_type(F, "cc::CcBox")
    ok = ccbox is not None and ccbox["repr_c"] and ccbox["variants"][0]["fields"][-1]["name"] == "elem"
    R.inst("R3.1", "repr:CcBox", ok, "CcBox: repr(C)=%s, last field=%s (the CcBox<T> -> CcBox<()> header casts rely on it)" % (ccbox and ccbox["repr_c"], ccbox and ccbox["variants"][0]["fields"][-1]["name"]), cfg=cfg, nontrivial=False)
    cc = adt_of_type(F, "cc::Cc")
    R.inst("R3.1", "repr:Cc", cc is not None and cc["repr_transparent"], "Cc is repr(transparent)=%s" % (cc and cc["repr_transparent"]), cfg=cfg, nontrivial=False)
    if weak:
        w = adt_of_type(F, "weak::NewCyclicWrapper")
        ok = w is not None and w["repr_transparent"] and len(w["variants"][0]["fields"]) == 1 and "MaybeUninit<T>" in w["variants"][0]["fields"][0]["ty"]
        R.inst("R3.1", "repr:NewCyclicWrapper", ok, "NewCyclicWrapper repr(transparent) over MaybeUninit<T>: %s" % ok, cfg=cfg, nontrivial=False)

    # ---- R3.2 layout < drop_metadata < cc_dealloc, once each ----------------------------------------------------
    R.doc("R3.2", "in every freeing function, on the same box: layout() dominates drop_metadata() (weak-ptrs) dominates cc_dealloc; nothing derived from the box is used after the free")
    nfree = 0
    for (f, bb, ci) in P.call_sites(lambda c: c["npath"] == "utils::cc_dealloc"):
        rootf = site_root(P, f)
        Sx = Super(P, rootf, opaque=DO - {rootf.npath})
        for n in [x for x in Sx.calls_to("utils::cc_dealloc") if x.ctx.fn is f and x.bb == bb]:
            nfree += 1
            box = obj_of(Sx.args_of(n)[0])
            lays = [x for x in Sx.calls_to(CCBOX + "layout") if obj_of(Sx.args_of(x)[0]) == box and Sx.dominates(x, n, exclude=("ui", "u"))]
            ok = bool(lays)
            det = "layout()<cc_dealloc=%s" % bool(lays)
            if weak:
                dms = [x for x in Sx.calls_to(CCBOX + "drop_metadata") if obj_of(Sx.args_of(x)[0]) == box and Sx.dominates(x, n, exclude=("ui", "u"))]
                ord_ok = bool(dms) and any(Sx.dominates(l, d, exclude=("ui", "u")) for l in lays for d in dms)
                once = len([x for x in Sx.calls_to(CCBOX + "drop_metadata") if obj_of(Sx.args_of(x)[0]) == box and not x.is_cleanup]) == 1
                ok = ok and ord_ok and once
                det += "; layout()<drop_metadata()<cc_dealloc=%s; drop_metadata exactly once=%s" % (ord_ok, once)
            # nothing uses the box afterwards (until the closure/function returns)
            after = Sx.reachable(n, exclude=("ui", "u", "loop"), stop=lambda x: x.kind == "return" and x.ctx is n.ctx)
            users = []
            for i in after:
                x = Sx.nodes[i]
                if x is n or x.ci is None or x.inlined or x.ci["k"] != "call" or x.ctx is not n.ctx:
                    continue
                if any(obj_of(a) == box for a in Sx.args_of(x)):
                    users.append(x.where())
            ok = ok and not users
            det += "; uses of the box after the free: %s" % (users or "none")
            R.inst("R3.2", "free-order:%s" % rootf.npath, ok, det, where=n.where(), cfg=cfg)
    R.floor("R3.2", cfg, 3 + (1 if weak else 0), nfree)
    if weak:
        for (f, bb, ci) in P.call_sites(lambda c: c["npath"] == CCBOX + "drop_metadata"):
            rootf = site_root(P, f)
            Sx = Super(P, rootf, opaque=DO - {rootf.npath})
            for n in [x for x in Sx.calls_to(CCBOX + "drop_metadata") if x.ctx.fn is f and x.bb == bb]:
                box = obj_of(Sx.args_of(n)[0])
                frees = [x for x in Sx.calls_to("utils::cc_dealloc") if obj_of(Sx.args_of(x)[0]) == box]
                ok, wit = Sx.must_pass(n, lambda x: x in frees, Sx.returns, exclude=("ui", "u"), avoid_labels=("skip",))
                R.inst("R3.2", "drop_metadata-implies-free:%s" % rootf.npath, ok and bool(frees), "every normal path after drop_metadata(%s) frees that box (%d cc_dealloc sites): %s - marking the side record inaccessible / releasing it for a box that stays alive makes its Weaks die early or dangle" % (fmt(box)[:50], len(frees), ok), where=n.where(), cfg=cfg)

    # ---- R3.3 drop before free ---------------------------------------------------------------------------------------
    R.doc("R3.3", "Cc::drop: the payload drop dominates cc_dealloc and every normal path from it reaches cc_dealloc; deallocate_list: the destructor pass dominates the freeing pass, "
                  "no un-marking or unlinking happens in between (members must stay collector-owned so that sibling Cc::drops only decrement)")
    dr = anchor(F, "<cc::Cc<T> as std::ops::Drop>::drop")
    S = Super(P, dr, opaque=DO - {dr.npath})
    pd = [n for n in S.usite_nodes(("DROP",)) if n.ci["k"] == "call"]
    fr = S.calls_to("utils::cc_dealloc")
    for d in pd:
        ok1 = all(S.dominates(d, x, exclude=("ui", "u")) for x in fr) and bool(fr)
        ok2, wit = S.must_pass(d, lambda x: x in fr, S.returns, exclude=("ui", "u"))
        box_d = obj_of(S.args_of(d)[0])
        same = all(obj_of(S.args_of(x)[0]) == box_d for x in fr)
        R.inst("R3.3", "rc-drop-then-free", ok1 and ok2 and same, "payload drop dominates cc_dealloc=%s; cc_dealloc on every normal path after it=%s; same box=%s" % (ok1, ok2, same), where=d.where(), cfg=cfg)
        rm = [x for x in S.calls_to("cc::remove_from_list") if obj_of(S.args_of(x)[0]) == box_d and S.dominates(x, d, exclude=("ui", "u"))]
        R.inst("R3.3", "rc-unbuffered-before-drop", bool(rm), "remove_from_list(self) %s the payload drop in Cc::drop (a destructor that starts a collection would otherwise find the box buffered with count 0: second drop, second free)" % ("dominates" if rm else "does NOT dominate"), where=d.where(), cfg=cfg)
    R.floor("R3.3/rc", cfg, 1, len(pd))
    dl = anchor(F, "deallocate_list")
    S = Super(P, dl, opaque=DO - {dl.npath})
    drops = S.calls_to(CCBOX0 + "drop_inner")
    frees = S.calls_to("utils::cc_dealloc")
    ok = bool(drops) and bool(frees)
    # the pass (for_each/fold closure or `for` loop over list.iter()) running the destructors dominates the pass freeing the boxes
    icd = [iteration_context(S, x) for x in drops]
    icf = [iteration_context(S, x) for x in frees]
    ok = ok and all(icd) and all(icf)
    same_list = False
    it_args = []
    if ok:
        pd_ = {ic["pass"].idx for ic in icd}
        pf_ = {ic["pass"].idx for ic in icf}
        ok = len(pd_) == 1 and len(pf_) == 1 and pd_ != pf_ and S.dominates(S.nodes[list(pd_)[0]], S.nodes[list(pf_)[0]], exclude=("ui", "u"))
        ok = ok and all(ic["every"] and ic["whole"] for ic in icd + icf)
        it_args = sorted({fmt(ic["list"]) for ic in icd + icf})
        same_list = len(it_args) == 1
    R.inst("R3.3", "all-drops-before-all-frees", ok and same_list, "destructor pass (drop_inner once per element) dominates the freeing pass (cc_dealloc once per element)=%s; both iterate %s" % (ok, it_args), where=dl.span, cfg=cfg)
    unmark = [x for x in S.nodes if not x.is_cleanup and x.ctx.via != "dtor" and is_call(x, LL + "remove_first", LL + "remove", CM + "mark", LQ + "poll") and not _in_dtor(x)]
    R.inst("R3.3", "members-stay-marked", not unmark, "un-marking/unlinking calls on the normal path of deallocate_list: %s" % ([x.where() for x in unmark] or "none"), where=dl.span, cfg=cfg)

    # ---- R3.4 try_unwrap moves, never drops ------------------------------------------------------------------------------
    R.doc("R3.4", "try_unwrap's normal paths contain no destructor or finalizer callback; the value leaves through ptr::read before the free; self is wrapped in ManuallyDrop first")
    tu = anchor(F, "cc::Cc::<T>::try_unwrap")
    S = Super(P, tu, opaque=DO - {tu.npath})
    us = [n for n in S.usite_nodes(("DROP", "FINALIZE", "TRACE")) if not n.is_cleanup]
    R.inst("R3.4", "no-callback", not us, "callback sites on try_unwrap's normal paths: %s" % ([x.where() for x in us] or "none"), where=tu.span, cfg=cfg)
    rd = S.calls_to("std::ptr::read")
    fr = S.calls_to("utils::cc_dealloc")
    ok = len(rd) == 1 and len(fr) == 1 and S.dominates(rd[0], fr[0], exclude=("ui", "u")) and obj_of(S.args_of(rd[0])[0]) == obj_of(S.args_of(fr[0])[0])
    R.inst("R3.4", "read-then-free", ok, "ptr::read(%s) dominates cc_dealloc(%s): %s" % (fmt(obj_of(S.args_of(rd[0])[0])) if rd else "-", fmt(obj_of(S.args_of(fr[0])[0])) if fr else "-", ok), where=tu.span, cfg=cfg)
    md = S.calls_to("std::mem::ManuallyDrop::<T>::new")
    ok = len(md) == 1 and all(S.dominates(md[0], x, exclude=("ui", "u")) for x in S.call_nodes() if x is not md[0] and not x.is_cleanup)
    sd = [n for n in S.nodes if n.ci is not None and n.ci["k"] == "drop" and "Cc<T>" in n.ci["ty"] and not n.is_cleanup]
    R.inst("R3.4", "self-never-dropped", ok and not sd, "ManuallyDrop::new(self) dominates every other call=%s; Drop terminators of a Cc on normal paths: %s" % (ok, [x.where() for x in sd] or "none"), where=tu.span, cfg=cfg)

    # ---- R3.5 side record released once ------------------------------------------------------------------------------------
    if weak:
        R.doc("R3.5", "dealloc_other::<BoxedMetadata> is called only by drop_metadata under has_allocated & weak count==0 (else set_accessible(false)) and by Weak::drop under "
                      "count==0 & !accessible evaluated after its decrement; drop_metadata and cc_dealloc are paired one-to-one")
        own = owners_of_calls(P, lambda c: c["npath"] == "utils::dealloc_other")
        R.inst("R3.5", "who-frees-side-record", set(own) == {CCBOX + "drop_metadata", "<weak::Weak<T> as std::ops::Drop>::drop"}, "dealloc_other called from %s" % sorted(own), cfg=cfg)
        dm = anchor(F, CCBOX + "drop_metadata")
        S = Super(P, dm, opaque=DO - {dm.npath})
        for n in S.calls_to("utils::dealloc_other"):
            lits = S.literals_at(n, exclude=("ui", "u"))
            ok = has_lit(lits, CM + "has_allocated_for_metadata", True) and has_cmp_const(lits, WCM + "counter", "Eq", 0, True)
            R.inst("R3.5", "drop_metadata-free-guard", ok, "dealloc_other in drop_metadata under %s; required has_allocated_for_metadata & weak counter==0" % lits_str(lits), where=n.where(), cfg=cfg)
        sa = S.calls_to(WCM + "set_accessible")
        for n in sa:
            lits = S.literals_at(n, exclude=("ui", "u"))
            ok = has_lit(lits, CM + "has_allocated_for_metadata", True) and has_cmp_const(lits, WCM + "counter", "Eq", 0, False) and S.args_of(n)[1] == ("const", 0)
            R.inst("R3.5", "drop_metadata-inaccessible", ok, "set_accessible(%s) in drop_metadata under %s; required: false, under has_allocated & weak counter!=0" % (fmt(S.args_of(n)[1]), lits_str(lits)), where=n.where(), cfg=cfg)
        R.floor("R3.5/drop_metadata", cfg, 2, len(sa) + len(S.calls_to("utils::dealloc_other")))
        # every normal path of drop_metadata with the record present does exactly one of the two
        bad = []
        for p in tables.normal_paths(S):
            has = any(a[0] == "bool" and getter_of(a[1])[0] == CM + "has_allocated_for_metadata" and t is True for a, t in p.literals)
            k = len(p.calls("utils::dealloc_other")) + len(p.calls(WCM + "set_accessible"))
            if (has and k != 1) or (not has and k != 0):
                bad.append(p.describe()[:100])
        R.inst("R3.5", "drop_metadata-exactly-one", not bad, "paths of drop_metadata violating `record present => exactly one of free / mark inaccessible`: %s" % (bad or "none"), where=dm.span, cfg=cfg)
        wd = anchor(F, "<weak::Weak<T> as std::ops::Drop>::drop")
        S = Super(P, wd, opaque=DO - {wd.npath})
        decs = S.calls_to(WCM + "decrement_counter")
        for n in S.calls_to("utils::dealloc_other"):
            lits = S.literals_at(n, exclude=("ui", "u"))
            ok = has_cmp_const(lits, WCM + "counter", "Eq", 0, True) and has_lit(lits, WCM + "is_accessible", False)
            # the reads must come after the decrement
            reads = [x for x in S.calls_to(WCM + "counter", WCM + "is_accessible")]
            after = all(any(S.dominates(d, r, exclude=("ui", "u")) for d in decs) for r in reads) and bool(decs)
            R.inst("R3.5", "weak-drop-free-guard", ok and after, "dealloc_other in Weak::drop under %s; guard reads dominated by the decrement=%s; required counter==0 & !is_accessible" % (lits_str(lits), after), where=n.where(), cfg=cfg)
        bad = []
        for p in tables.normal_paths(S):
            some = any(a[0] == "discr" and t in (("is", 1), ("not", 0)) for a, t in p.literals)
            k = len(p.calls(WCM + "decrement_counter"))
            if (some and k != 1) or (not some and k != 0):
                bad.append("%d decrements on [%s]" % (k, p.describe()[:100]))
        R.inst("R3.5", "weak-drop-one-decrement", not bad, "Weak::drop decrements the weak counter exactly once iff a side record exists: %s" % (bad or "yes"), where=wd.span, cfg=cfg)

        # ---- R3.6 PanicGuard -------------------------------------------------------------------------------------------------
        R.doc("R3.6", "the destructor of new_cyclic's panic guard contains no payload drop, finalizer or trace callback")
        pg = [f for f in F.fns.values() if f.npath.endswith("::drop") and "PanicGuard" in f.npath]
        for f in pg:
            ks = P.fn_mayU(f)
            R.inst("R3.6", "panic-guard-no-payload-drop", not ks, "PanicGuard::drop can reach callbacks: %s" % (sorted(ks) or "none"), where=f.span, cfg=cfg)
        R.floor("R3.6", cfg, 1, len(pg))

    # ---- R3.7 iterate-then-free ---------------------------------------------------------------------------------------------------
    R.doc("R3.7", "lists::Iter::next reads the yielded node's next link before returning it (the freeing pass frees the node it was just handed)")
    itn = [f for f in F.fns.values() if f.npath == "<lists::Iter<'a> as std::iter::Iterator>::next"]
    for f in itn:
        S = Super(P, f, opaque=DO)
        ok = False
        det = ""
        for p in tables.normal_paths(S):
            rv = p.retval()
            if isinstance(rv, tuple) and rv[0] == "agg" and rv[2].endswith("Option::Some"):
                node_ = strip(rv[3][0])
                # a store to self.next whose value is *get_next(node) on this path
                stores = []
                for (n, lab) in p.path:
                    for s in n.stmts:
                        if s["k"] == "assign" and any(isinstance(e, dict) and e.get("n") == "next" for e in s["place"]["p"]):
                            v = S.resolve_rv(n.ctx, s["rv"], None)
                            stores.append(v)
                ok = any(fmt(v).startswith(fmt(node_)) and (fmt(v).endswith(".next") or "get_next" in fmt(v)) for v in stores) or any("get_next" in fmt(v) and fmt(node_) in fmt(v) for v in stores)
                det = "path yielding Some(%s): stores to self.next = %s" % (fmt(node_), [fmt(v) for v in stores])
        R.inst("R3.7", "iter-reads-link-before-yield", ok, det or "no path yielding Some", where=f.span, cfg=cfg)
    R.floor("R3.7", cfg, 1, len(itn))

    # ---- union discipline -----------------------------------------------------------------------------------------------------------
    if weak:
        R.doc("R3.8", "Metadata.boxed_metadata is read only under has_allocated_for_metadata()==true and Metadata.vtable only under ==false (callers of get_metadata_unchecked included)")
        k = 0
        for fname in (CCBOX + "vtable", CCBOX + "get_or_init_metadata", CCBOX + "drop_metadata", "weak::<impl cc::Cc<T>>::weak_count"):
            f = anchor(F, fname)
            S = Super(P, f, opaque=DO - {fname, CCBOX + "get_metadata_unchecked"})
            for fld, want in (("boxed_metadata", True), ("vtable", False)):
                for (n, pl) in field_reads(S, fld):
                    base_ty = pl["ty"]
                    # only reads on the Metadata union
                    if not _is_metadata_union_read(S, n, pl, fld):
                        continue
                    k += 1
                    lits = S.literals_at(n, exclude=("ui", "u"))
                    ok = has_lit(lits, CM + "has_allocated_for_metadata", want)
                    R.inst("R3.8", "union-read:%s:%s" % (fname, fld), ok, "read of Metadata.%s under %s; required has_allocated_for_metadata()==%s" % (fld, lits_str(lits), want), where=n.where(), cfg=cfg)
        R.floor("R3.8", cfg, 4, k)


def _in_dtor(x):
    c = x.ctx
    while c is not None:
        if c.via == "dtor":
            return True
        c = c.parent
    return False


def _is_metadata_union_read(S, n, pl, fld):
    # the projection on `fld` must be applied to a value of the union type cc::Metadata
    for e in pl["p"]:
        if isinstance(e, dict) and e.get("n") == fld and e.get("bt", "").strip() == "cc::Metadata":
            return True
    return False
