"""C15 - Automatic collection follows the documented trigger and threshold policy."""
from engine.graph import Super, fmt, strip, U_KINDS
from engine import tables
from .common import *

LEVEL = "other"
EXPLANATION = ("Decision structure built from comparisons is a finite table; decided on the MIR facts (auto-collect configurations): (R15.1) truth table of Config::should_collect == "
               "auto_collect & (allocated > threshold | (buffered_threshold = Some(b) & buffered > b)) with the strict comparisons of the property; (R15.2) trigger_collection calls collect "
               "exactly under !is_collecting & should_collect (default false when the config is unavailable), at most once per path, followed by the adjustment; every function that "
               "allocates a managed box passes trigger_collection exactly once and before cc_alloc, and it has no other callers; without auto-collect only collect_cycles reaches collect; "
               "(R15.3) stores to bytes_threshold are a closed set with right-hand sides checked_shl(threshold,1) / threshold>>1 / DEFAULT, no public setter, and every path of "
               "Config::adjust follows the guarded-write automaton whose exit literals are exactly the property's disjuncts (strictly above allocated; not needlessly high; floor at "
               "the initial value); (R15.4) the public setters assign only their own field and set_adjustment_percent asserts [0,1]. Off-by-one edits (> vs >=, <= vs <) change the "
               "table; an arithmetically equivalent rewrite of a comparison is reported as `unrecognised-guard` (accepted false-alarm exposure, DESIGN C15). "
               "Not decided: the long-run behaviour of the feedback loop. Assumption recorded: usize::checked_shl(1) never returns None, so the doubling loop's overflow exit is dead.")


def _cmp(a, t):
    """Canonical (op, lhs, rhs) for an integer comparison literal taken with truth t; lhs/rhs as fmt strings."""
    if a[0] != "cmp":
        return None
    op, x, y = a[1], a[2], a[3]
    if not t:
        op = {"Eq": "Ne", "Lt": "Ge", "Le": "Gt", "Gt": "Le", "Ge": "Lt"}.get(op)
        if op is None:
            return None
    return (op, x, y)


def _role(e):
    """Names the quantities the policy talks about."""
    e = strip(e)
    s = fmt(e)
    if isinstance(e, tuple) and e and e[0] == "call" and e[1] == ST + "allocated_bytes":
        return "allocated"
    if s.endswith("self.bytes_threshold"):
        return "threshold"
    if isinstance(e, tuple) and e and e[0] == "call" and e[1] == PC + "size":
        return "buffered"
    if isinstance(e, tuple) and e and e[0] == "call" and e[1].endswith("NonZero::<T>::get") and "buffered_threshold" in s:
        return "buffered_threshold"
    if isinstance(e, tuple) and e and e[0] == "bin" and e[1] == "Shr" and _role(e[2]) == "threshold" and e[3] == ("const", 1):
        return "half"
    if isinstance(e, tuple) and e and e[0] == "bin" and e[1] == "Mul" and {_role(e[2]), _role(e[3])} == {"threshold", "percent"}:
        return "scaled"
    if s.endswith("self.adjustment_percent"):
        return "percent"
    if isinstance(e, tuple) and e and e[0] == "const":
        if e[1] == 100:
            return "DEFAULT"
        if isinstance(e[1], str) and e[1].replace("_", "").startswith(("0f64", "0.0")):
            return "zero"
        if e[1] == 0:
            return "zero"
    return None


def rel(a, t):
    """Literal as a relation between named quantities, e.g. ('allocated', '>', 'threshold'); None if unrecognised.
    Float comparisons keep their polarity (no negation folding)."""
    if a[0] != "cmp":
        return None
    op, x, y = a[1], a[2], a[3]
    rx, ry = _role(x), _role(y)
    if rx is None or ry is None:
        return None
    isfloat = "scaled" in (rx, ry) or "percent" in (rx, ry)
    sym = {"Eq": "==", "Ne": "!=", "Lt": "<", "Le": "<=", "Gt": ">", "Ge": ">="}[op]
    if not t:
        if isfloat:
            return (rx, "not" + sym, ry)
        sym = {"==": "!=", "!=": "==", "<": ">=", "<=": ">", ">": "<=", ">=": "<"}[sym]
    # orient: put `allocated`/`buffered` on the left when present
    if ry in ("allocated", "buffered") and rx not in ("allocated", "buffered"):
        flip = {"<": ">", ">": "<", "<=": ">=", ">=": "<=", "==": "==", "!=": "!=", "not<": "not>", "not>": "not<", "not<=": "not>=", "not>=": "not<=", "not==": "not==", "not!=": "not!="}
        rx, ry, sym = ry, rx, flip[sym]
    return (rx, sym, ry)


def check(R, F, P, cfg):
    if not F.has("auto-collect"):
        # R15.2 remainder: collect only from collect_cycles
        own = owners_of_calls(P, lambda c: c["npath"] == "collect")
        R.doc("R15.2", "without auto-collect: collect is reachable only from collect_cycles; trigger_collection and the config module do not exist")
        R.inst("R15.2", "no-auto-collect:collect-callers", set(own) == {"collect_cycles"}, "collect called from %s" % sorted(own), cfg=cfg)
        R.inst("R15.2", "no-auto-collect:no-trigger", F.fn("trigger_collection") is None and F.fn("config::Config::should_collect") is None, "trigger_collection / should_collect absent: %s" % (F.fn("trigger_collection") is None), cfg=cfg, nontrivial=False)
        return
    DO = default_opaque(F)

    # ---- R15.1 should_collect ------------------------------------------------------------------------------------
    R.doc("R15.1", "truth table of should_collect")
    sc = anchor(F, "config::Config::should_collect")
    S = Super(P, sc, opaque=DO - {sc.npath})
    paths = tables.normal_paths(S)

    def atomise(a, t):
        if a[0] == "bool" and fmt(strip(a[1])).endswith("self.auto_collect"):
            return ("auto", t)
        if a[0] == "discr" and fmt(strip(a[1])).endswith("self.buffered_threshold"):
            return ("has_bt", t in (("is", 1), ("not", 0)))
        r = rel(a, t) if t in (True, False) else None
        if r == ("allocated", ">", "threshold"):
            return ("bytes_gt", True)
        if r == ("allocated", "<=", "threshold"):
            return ("bytes_gt", False)
        if r == ("buffered", ">", "buffered_threshold"):
            return ("buf_gt", True)
        if r == ("buffered", "<=", "buffered_threshold"):
            return ("buf_gt", False)
        return None

    def atom_of(e):
        e = strip(e)
        if isinstance(e, tuple) and e and e[0] == "bin":
            r = rel(("cmp", e[1], e[2], e[3]), True)
            if r == ("buffered", ">", "buffered_threshold"):
                return "buf_gt"
            if r == ("allocated", ">", "threshold"):
                return "bytes_gt"
        if fmt(e).endswith("self.auto_collect"):
            return "auto"
        return None
    atoms = ["auto", "bytes_gt", "has_bt", "buf_gt"]
    probs = tables.check_table(paths, atomise, lambda g: g["auto"] and (g["bytes_gt"] or (g["has_bt"] and g["buf_gt"])),
                               lambda p, g: tables.eval_bool(p.retval(), g, atom_of), atoms)
    R.inst("R15.1", "should_collect-table", not probs, "; ".join(probs[:5]) if probs else "%d paths, 16 rows: auto_collect & (allocated > threshold | (Some(b) & buffered > b))" % len(paths), where=sc.span, cfg=cfg)

    # ---- R15.2 trigger ----------------------------------------------------------------------------------------------
    R.doc("R15.2", "trigger_collection: collect under !is_collecting & should_collect(..).unwrap_or(false), once, then adjust; allocation entry points pass the trigger once before cc_alloc")
    tg = anchor(F, "trigger_collection")
    S = Super(P, tg, opaque=DO - {tg.npath, "adjust_trigger_point"})   # the helper, when there is one, is looked through
    cs = S.calls_to("collect")
    for n in cs:
        lits = S.literals_at(n, exclude=("ui", "u"))
        notcoll = has_lit(lits, ST + "is_collecting", False)
        should = False
        for a, t in lits:
            if a[0] == "bool" and t is True:
                e = strip(a[1])
                if isinstance(e, tuple) and e[0] == "call" and e[1].endswith("Result::<T, E>::unwrap_or") and e[2][1] == ("const", 0):
                    inner = strip(e[2][0])
                    if inner[0] == "ret" and inner[1] == "config::config":
                        v = tables.closure_value(S, inner[2][0])
                        if v is not None and strip(v)[0] == "ret" and strip(v)[1] == "config::Config::should_collect":
                            should = True
        adj = [x for x in S.calls_to("config::Config::adjust") if S.dominates(n, x, exclude=("ui", "u"))]
        if adj:
            okp, _w = S.must_pass(n, lambda x: x in adj, S.returns, exclude=("ui", "u"), avoid_labels=("skip",))
            adj = adj if okp else []
        R.inst("R15.2", "trigger-guard", notcoll and should and bool(adj), "collect in trigger_collection under %s; !is_collecting=%s, should_collect.unwrap_or(false)=%s, followed on every path by Config::adjust (through the config accessor)=%s" % (lits_str(lits)[:200], notcoll, should, bool(adj)), where=n.where(), cfg=cfg)
    bad = []
    for p in tables.normal_paths(S):
        if len(p.calls("collect")) > 1:
            bad.append(p.describe()[:80])
    R.inst("R15.2", "trigger-at-most-once", not bad and len(cs) == 1, "collect sites in trigger_collection: %d; paths calling it twice: %s" % (len(cs), bad or "none"), where=tg.span, cfg=cfg)
    own = owners_of_calls(P, lambda c: c["npath"] == "trigger_collection")
    exp = {"cc::Cc::<T>::new"} | ({"weak::<impl cc::Cc<T>>::new_cyclic"} if F.has("weak-ptrs") else set())
    R.inst("R15.2", "trigger-callers", set(own) <= exp and "cc::Cc::<T>::new" in own, "trigger_collection called from %s (allowed %s)" % (sorted(own), sorted(exp)), cfg=cfg)
    own = owners_of_calls(P, lambda c: c["npath"] == "collect")
    R.inst("R15.2", "collect-callers", set(own) == {"collect_cycles", "trigger_collection"}, "collect called from %s" % sorted(own), cfg=cfg)
    # every function calling CcBox::new (-> cc_alloc) passes the trigger exactly once before it
    own = owners_of_calls(P, lambda c: c["npath"] == CCBOX + "new")
    k = 0
    for o in sorted(own):
        if o.startswith("tests::") or "new_for_tests" in o:
            continue
        f = anchor(F, o)
        S = Super(P, f, opaque=DO - {o})
        for n in S.calls_to(CCBOX + "new"):
            k += 1
            trg = [x for x in S.calls_to("trigger_collection") if S.dominates(x, n, exclude=("ui", "u"))]
            total = S.calls_to("trigger_collection")
            R.inst("R15.2", "trigger-before-alloc:%s" % o, len(trg) == 1 and len(total) == 1, "%s: trigger_collection sites dominating the allocation: %d (total %d); required exactly one" % (o, len(trg), len(total)), where=n.where(), cfg=cfg)
    R.floor("R15.2/alloc-entry", cfg, 1, k)
    own = owners_of_calls(P, lambda c: c["npath"] == "utils::cc_alloc")
    R.inst("R15.2", "who-allocates", set(own) == {CCBOX + "new"}, "cc_alloc called from %s" % sorted(own), cfg=cfg)
    own = owners_of_calls(P, lambda c: c["npath"] == "config::Config::adjust")
    R.inst("R15.2", "adjust-called", bool(own) and set(own) <= {"adjust_trigger_point", "trigger_collection", "collect_cycles"}, "Config::adjust is called from %s (allowed: the two collection entry points or their adjust_trigger_point helper)" % sorted(own), cfg=cfg)

    # ---- R15.3 threshold writes ------------------------------------------------------------------------------------------
    R.doc("R15.3", "closed set of stores to bytes_threshold (only in Config::adjust and Config::new) with RHS checked_shl(thr,1)/thr>>1/DEFAULT; every path of adjust follows the guarded-write automaton")
    writers = {}
    for f in F.fns.values():
        for bi, b in enumerate(f.blocks):
            for s in b["stmts"]:
                if s["k"] == "assign" and any(isinstance(e, dict) and e.get("n") == "bytes_threshold" for e in s["place"]["p"]):
                    for o_ in lift_owner(P, f):       # private helpers of adjust count as adjust
                        writers.setdefault(o_, []).append((f, bi, s))
                if s["k"] == "assign" and s["rv"]["k"] == "agg" and s["rv"].get("adt") == "config::Config":
                    for o_ in lift_owner(P, f):
                        writers.setdefault(o_, []).append((f, bi, s))
    ok = set(writers) <= {"config::Config::adjust", "config::Config::new", "<config::Config as std::clone::Clone>::clone", "<config::Config as std::default::Default>::default"} and "config::Config::adjust" in writers
    R.inst("R15.3", "who-writes-threshold", ok, "bytes_threshold is written in %s" % sorted(writers), cfg=cfg)
    cn = anchor(F, "config::Config::new")
    Sn = Super(P, cn, opaque=DO)
    init = None
    for n in Sn.nodes:
        for s in n.stmts:
            if s["k"] == "assign" and s["rv"]["k"] == "agg" and s["rv"].get("adt") == "config::Config":
                init = dict(zip(s["rv"]["fields"], [Sn.resolve_op(n.ctx, o) for o in s["rv"]["ops"]]))
    R.inst("R15.3", "initial-threshold", init is not None and init.get("bytes_threshold") == ("const", 100) and F.const("config::DEFAULT_BYTES_THRESHOLD") == 100, "Config::new: bytes_threshold=%s, DEFAULT_BYTES_THRESHOLD=%s" % (fmt(init.get("bytes_threshold")) if init else "?", F.const("config::DEFAULT_BYTES_THRESHOLD")), cfg=cfg)
    cfgadt = adt_of_type(F, "config::Config")
    vis = {fl["name"]: fl["vis"] for fl in cfgadt["variants"][0]["fields"]}
    R.inst("R15.3", "threshold-private", vis.get("bytes_threshold") not in ("pub", "crate"), "Config field visibilities: %s" % vis, cfg=cfg, nontrivial=False)

    ad = anchor(F, "config::Config::adjust")
    S = Super(P, ad, opaque=DO - {ad.npath})
    paths = S.paths(S.entry, lambda n: n.kind == "return" and n.ctx is S.root_ctx, exclude=("ui", "u"), limit=50000, max_visits=3)
    n_ok = 0
    problems = []
    shapes = set()
    for p in paths:
        if not (p[-1][0].kind == "return"):
            continue
        seq = []
        for (n, lab) in p:
            # a block's statements run before its terminator
            for s in n.stmts:
                if s["k"] == "assign" and any(isinstance(e, dict) and e.get("n") == "bytes_threshold" for e in s["place"]["p"]):
                    v = S.resolve_rv(n.ctx, s["rv"], None)
                    seq.append(("write", _rhs_kind(v)))
            if n.kind == "switch" and isinstance(lab, tuple):
                e = S.switch_expr(n)
                if isinstance(e, tuple) and e and e[0] == "const":
                    continue
                from engine.graph import normalise_literal
                for (a, t) in normalise_literal(e, lab[1], n.term):
                    if a[0] == "discr":
                        if "checked_shl" in fmt(a[1]):
                            seq.append(("shl", "some" if t in (("is", 1), ("not", 0)) else "none"))
                        else:
                            seq.append(("?", fmt(a[1])))
                    else:
                        r = rel(a, t) if t in (True, False) else None
                        seq.append(("lit", r) if r else ("?", tables.fmt_atom(a) + "=" + str(t)))
        err = run_automaton(seq)
        shapes.add(tuple(seq))
        if err:
            problems.append("%s: %s" % (err, seq))
        else:
            n_ok += 1
    R.inst("R15.3", "adjust-automaton", not problems and n_ok >= 6, "%d paths of Config::adjust (loops unrolled up to 3x), %d distinct shapes, all accepted by the guarded-write automaton; first problems: %s" % (n_ok + len(problems), len(shapes), problems[:2] or "none"), where=ad.span, cfg=cfg)
    R.assume("usize::checked_shl(1) returns None only for an over-wide shift amount, so the `overflow` exit of the doubling loop is dead code; a threshold with its top bit set would wrap to 0 (needs >= 2^63 managed bytes)")

    # ---- R15.4 setters -----------------------------------------------------------------------------------------------------------
    R.doc("R15.4", "each public setter of Config stores only to its own field; set_adjustment_percent is guarded by (0..=1).contains(percent)")
    for (fname, field) in (("config::Config::set_auto_collect", "auto_collect"), ("config::Config::set_adjustment_percent", "adjustment_percent"), ("config::Config::set_buffered_objects_threshold", "buffered_threshold")):
        f = anchor(F, fname)
        Sx = Super(P, f, opaque=DO)
        ws = []
        for n in Sx.nodes:
            for s in n.stmts:
                if s["k"] == "assign" and s["place"]["p"] and s["place"]["l"] == 1:
                    ws.append([e.get("n") for e in s["place"]["p"] if isinstance(e, dict) and "n" in e])
        ok = ws == [[field]]
        det = "stores to self: %s" % ws
        if fname.endswith("set_adjustment_percent"):
            guard = False
            for n in Sx.nodes:
                for s in n.stmts:
                    if s["k"] == "assign" and s["place"]["p"] and s["place"]["l"] == 1:
                        lits = Sx.literals_at(n, exclude=("ui", "u"))
                        guard = any(a[0] == "bool" and "contains" in fmt(a[1]) and t is True for a, t in lits)
            rng = None
            for n in Sx.nodes:
                for s in n.stmts:
                    if s["k"] == "assign" and s["rv"]["k"] == "agg" and "RangeInclusive" in s["rv"].get("adt", ""):
                        rng = [Sx.resolve_op(n.ctx, o) for o in s["rv"]["ops"]]
            calls = [c_ for c_ in Sx.call_nodes() if c_.ci["k"] == "call" and "RangeInclusive" in c_.ci["npath"] and c_.ci["npath"].endswith("::new")]
            if rng is None and calls:
                rng = list(Sx.args_of(calls[0]))
            if rng is None:
                # `&(0f64..=1f64)` is constant-promoted: read the promoted body
                for pb in f.promoted:
                    for b in pb:
                        t = b["term"]
                        if t["k"] == "call" and "RangeInclusive" in t["callee"].get("path", "") and t["callee"]["path"].endswith("::new"):
                            rng = [("const", a.get("text", "")) for a in t["args"]]
                        for s_ in b["stmts"]:
                            if s_["k"] == "assign" and s_["rv"]["k"] == "agg" and "RangeInclusive" in s_["rv"].get("adt", ""):
                                rng = [("const", o.get("text", "")) for o in s_["rv"]["ops"]]
            def _f(x):
                return fmt(x).replace("_", "").replace("const ", "")
            rng_ok = rng is not None and len(rng) >= 2 and _f(rng[0]).startswith(("0f64", "0.0")) and _f(rng[1]).startswith(("1f64", "1.0"))
            ok = ok and guard and rng_ok
            det += "; guarded by range.contains(percent)=%s with range %s" % (guard, [fmt(x) for x in rng] if rng else None)
        R.inst("R15.4", "setter:%s" % fname.split("::")[-1], ok, det, where=f.span, cfg=cfg)


def _rhs_kind(v):
    v = strip(v)
    s = fmt(v)
    if v == ("const", 100):
        return "DEFAULT"
    if _role(v) == "half":
        return "half"
    if "checked_shl" in s and s.endswith(".0") and "self.bytes_threshold, 1" in s:
        return "double"
    return "other:" + s[:60]


def run_automaton(seq):
    """Guarded-write automaton of Config::adjust (DESIGN C15). Returns None if accepted, else a message."""
    i = 0

    def nxt():
        nonlocal i
        if i >= len(seq):
            return None
        x = seq[i]
        i += 1
        return x
    x = nxt()
    if x == ("lit", ("allocated", ">=", "threshold")):
        # doubling loop
        while True:
            x = nxt()
            if x == ("shl", "none"):
                return None if nxt() is None else "events after the overflow exit"
            if x != ("shl", "some"):
                return "doubling loop: expected the checked_shl test, got %s" % (x,)
            if nxt() != ("write", "double"):
                return "doubling loop: expected threshold = checked_shl(threshold, 1)"
            x = nxt()
            if x == ("lit", ("allocated", "<", "threshold")):
                return None if nxt() is None else "events after the doubling loop's exit"
            if x != ("lit", ("allocated", ">=", "threshold")):
                return "doubling loop: exit test must be allocated < threshold, got %s" % (x,)
    if x != ("lit", ("allocated", "<", "threshold")):
        return "entry test must be allocated >= threshold, got %s" % (x,)
    x = nxt()
    if x == ("lit", ("scaled", "==", "zero")):
        return None if nxt() is None else "writes after the `threshold*percent == 0` early return"
    if x != ("lit", ("scaled", "not==", "zero")):
        return "expected the `threshold * adjustment_percent == 0.0` test, got %s" % (x,)
    while True:
        x = nxt()
        if x == ("lit", ("allocated", "not<=", "scaled")):
            return None if nxt() is None else "events after the halving loop's exit"
        if x != ("lit", ("allocated", "<=", "scaled")):
            return "halving loop: condition must be allocated <= threshold*percent, got %s" % (x,)
        x = nxt()
        if x == ("lit", ("allocated", ">=", "half")):
            return None if nxt() is None else "write after `allocated >= threshold/2` break"
        if x != ("lit", ("allocated", "<", "half")):
            return "halving loop: expected the test allocated >= threshold>>1, got %s" % (x,)
        x = nxt()
        if x == ("lit", ("half", "<=", "DEFAULT")):
            if nxt() != ("write", "DEFAULT"):
                return "floor branch must store DEFAULT"
            return None if nxt() is None else "events after storing DEFAULT"
        if x != ("lit", ("half", ">", "DEFAULT")):
            return "halving loop: expected the floor test threshold>>1 <= DEFAULT, got %s" % (x,)
        if nxt() != ("write", "half"):
            return "halving loop must store threshold>>1"
