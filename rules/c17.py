"""C17 - Built-in Trace/Finalize impls visit each owned Cc exactly once."""
import re

from engine.graph import Super, fmt, strip, U_KINDS
from engine import tables
from .common import *

LEVEL = "proof"
TRUSTED_BASE = ["rustc MIR construction and trait resolution (facts are the compiler's own, opt-level 0)", "std semantics of Deref for Box/ManuallyDrop/AssertUnwindSafe/RefMut/Ref, IntoIterator/Iterator for &[T], &[T; N], &Vec<T>, RefCell::try_borrow(_mut)",
                "the ccfacts driver and the provenance resolver of the rule engine"]
EXPLANATION = ("For every impl of Trace and Finalize in the crate (table from trait resolution) the generic MIR body is one finite object standing for all instantiations, lengths and arities. "
               "Obligations = impls x paths: on each path of each body the multiset of forwarded trace/finalize calls, keyed by the access path of their receiver, must equal the "
               "specification for that container kind (tuples 1..12: each position once, unconditionally; Option/Result: the payload of the inhabited variant; Box/ManuallyDrop/"
               "AssertUnwindSafe: the deref target; RefCell: the Ok payload of try_borrow_mut / try_borrow, nothing when borrowed; arrays/slices/Vec: canonical loop over the whole "
               "value, one call per yielded item; Weak/Cleaner/Cleanable/CleanerMap/PhantomData/primitives: nothing; Cc: exactly CcBox::trace(self.inner)), and the Finalize impl must "
               "agree with its Trace sibling. Nestings follow by composition since every level is generic. All obligations are discharged by the checker on every run.")

PRIMS = ["()", "bool", "isize", "usize", "i8", "u8", "i16", "u16", "i32", "u32", "i64", "u64", "i128", "u128", "f32", "f64", "char", "str", "std::ffi::CStr", "std::string::String", "std::ffi::CString",
         "std::path::Path", "std::ffi::OsStr", "std::path::PathBuf", "std::ffi::OsString"]


def kind_of(self_ty):
    t = self_ty
    if t.startswith("(") and t.endswith(")") and t != "()":
        inner = t[1:-1].rstrip(",")
        n = len([x for x in inner.split(",") if x.strip()])
        return ("tuple", n)
    if t in PRIMS or t.startswith(("std::num::NonZero<", "std::sync::atomic::Atomic")):
        return ("empty", None)
    if t.startswith("std::marker::PhantomData<"):
        return ("empty", None)
    if t.startswith(("weak::Weak<", "cleaners::Cleaner", "cleaners::Cleanable", "cleaners::CleanerMap")):
        return ("empty", None)
    if t.startswith("std::option::Option<"):
        return ("option", None)
    if t.startswith("std::result::Result<"):
        return ("result", None)
    if t.startswith(("std::boxed::Box<", "std::mem::ManuallyDrop<", "std::panic::AssertUnwindSafe<")):
        return ("deref", None)
    if t.startswith("std::cell::RefCell<"):
        return ("refcell", None)
    if t.startswith("[") or t.startswith("std::vec::Vec<"):
        return ("iter", None)
    # further std collections (not implemented today; a maintainer may add them): same canonical whole-collection loop. Trusted: their `iter()`
    # yields every owned element exactly once and runs no user code (no Ord/Hash call while iterating)
    if t.startswith(("std::collections::VecDeque<", "std::collections::LinkedList<", "std::collections::BTreeSet<", "std::collections::BinaryHeap<", "std::collections::HashSet<")):
        return ("iter", None)
    if t.startswith(("std::collections::BTreeMap<", "std::collections::HashMap<")):
        return ("iter_pairs", None)
    if t.startswith("cc::Cc<"):
        return ("cc", None)
    if t.startswith("cc::CcBox<"):
        return ("ccbox", None)
    if t.startswith("weak::NewCyclicWrapper<"):
        return ("wrapper", None)
    return ("unknown", None)


def forward_calls(S, X, method):
    """(receiver access path, callee) of the trace/finalize calls executed on a symbolically executed path."""
    out = []
    for (n, args) in X.calls:
        ci = n.ci
        name = ci["term"]["callee"].get("name") if not ci["term"]["callee"].get("indirect") else None
        tr = ci["term"]["callee"].get("trait", "") or ""
        if name == method and tr.endswith(("trace::Trace", "trace::Finalize")):
            out.append((fmt(strip(args[0])), ci["npath"]))
        elif ci["npath"] == CCBOX0 + "trace":
            out.append((fmt(strip(args[0])), ci["npath"]))
    return out


def check(R, F, P, cfg):
    R.doc("R17.1", "per impl and per path: forwarded calls (by receiver access path) == specification of the container kind")
    R.doc("R17.2", "impl table: every container named by the property has Trace and Finalize impls; Finalize agrees with Trace path by path")
    DO = default_opaque(F)
    impls = {}
    for f in F.fns.values():
        if f.kind == "closure" or not f.impl_of or not f.impl_of.get("trait"):
            continue
        tr = f.impl_of["trait"]
        if tr.endswith("trace::Trace") and f.npath.endswith("::trace"):
            impls[(f.impl_of["self_ty"], "trace")] = f
        elif tr.endswith("trace::Finalize") and f.npath.endswith("::finalize"):
            impls[(f.impl_of["self_ty"], "finalize")] = f
    from engine.facts import norm_path
    sigs = {}
    n_oblig = 0
    for (sty, method), f in sorted(impls.items()):
        nsty = norm_path(sty)
        kind, n = kind_of(nsty)
        S = Super(P, f, opaque=DO)
        paths = tables.normal_paths(S, max_visits=3, limit=5000)
        sig = []
        problems = []
        for p in paths:
            X = tables.SymExec(S, p.path)
            fw = forward_calls(S, X, method)
            recv = sorted(r for r, _ in fw)
            conds = sorted(set(_norm_cond(tables.fmt_atom(a), t) for a, t in X.literals))
            sig.append((tuple(conds), tuple(_norm_recv(r) for r in recv)))
            exp = expected(kind, n, method, X, recv, S)
            n_oblig += 1
            if exp is None:
                problems.append("path [%s]: no specification for impl kind %s" % (" & ".join(conds), kind))
            elif exp != recv:
                problems.append("path [%s]: forwards to %s, specification %s" % (" & ".join(conds), recv, exp))
        # unconditional / structural side conditions
        if kind[0:1] == ("tuple",)[0:1] and kind == "tuple":
            if len(paths) != 1:
                problems.append("tuple impl has %d paths (must be 1: every position unconditionally)" % len(paths))
        if kind in ("iter", "iter_pairs"):
            problems += loop_shape(S, method)
        if kind == "empty":
            calls = [b["term"] for b in f.blocks if b["term"]["k"] in ("call", "drop")]
            if calls:
                problems.append("body is not empty: %d call/drop terminators" % len(calls))
        if not paths:
            problems.append("no normal path")
        sigs[(nsty, method)] = sorted(sig)
        R.inst("R17.1", "impl:%s:%s" % (method, nsty), not problems, "%s for %s [%s]: %d path(s); %s" % (method, nsty, kind, len(paths), problems[:3] or "each path forwards exactly to the specified receivers"), where=f.span, cfg=cfg, nontrivial=(kind != "empty"))
    R.notes["obligations[%s]" % cfg] = n_oblig

    # impl table floor: the containers the property names
    required = ["(A,)", "(A, B)", "(A, B, C)", "(A, B, C, D)", "(A, B, C, D, E)", "(A, B, C, D, E, F)", "(A, B, C, D, E, F, G)", "(A, B, C, D, E, F, G, H)", "(A, B, C, D, E, F, G, H, I)",
                "(A, B, C, D, E, F, G, H, I, J)", "(A, B, C, D, E, F, G, H, I, J, K)", "(A, B, C, D, E, F, G, H, I, J, K, L)", "[T; N]", "[T]", "std::vec::Vec<T>", "std::boxed::Box<T>",
                "std::option::Option<T>", "std::result::Result<R, E>", "std::cell::RefCell<T>", "std::mem::ManuallyDrop<T>", "std::panic::AssertUnwindSafe<T>", "std::marker::PhantomData<T>", "cc::Cc<T>"]
    if F.has("weak-ptrs"):
        required.append("weak::Weak<T>")
    if F.has("cleaners"):
        required += ["cleaners::Cleaner", "cleaners::Cleanable"]
    have_t = {norm_path(s) for (s, m) in impls if m == "trace"}
    have_f = {norm_path(i["self_ty"]) for i in F.impls if i.get("trait") and i["trait"].endswith("trace::Finalize")}
    for r in required:
        R.inst("R17.2", "has-impls:%s" % r, r in have_t and r in have_f, "Trace impl present=%s, Finalize impl present=%s" % (r in have_t, r in have_f), cfg=cfg, nontrivial=False)
    # sibling agreement
    for (sty, method), sig in sorted(sigs.items()):
        if method != "trace":
            continue
        kind, _ = kind_of(sty)
        if kind in ("cc", "ccbox"):
            continue
        fs = sigs.get((sty, "finalize"))
        if fs is None:
            # Finalize with the default (empty) body: only allowed where Trace forwards nothing
            forwards = any(r for (_, r) in sig)
            R.inst("R17.2", "sibling:%s" % sty, not forwards, "Finalize for %s uses the default empty body while Trace forwards: %s" % (sty, forwards), cfg=cfg)
            continue
        a = sorted(((), r) for c, r in sig)
        b = sorted(((), r) for c, r in fs)
        R.inst("R17.2", "sibling:%s" % sty, _strip_borrow(a) == _strip_borrow(b), "Trace vs Finalize for %s: %s" % (sty, "same receivers on corresponding paths" if _strip_borrow(a) == _strip_borrow(b) else "trace=%s finalize=%s" % (a[:3], b[:3])), cfg=cfg)


def _strip_borrow(sig):
    out = []
    for conds, recv in sig:
        out.append((tuple(c.replace("try_borrow_mut", "try_borrow") for c in conds), tuple(r.replace("try_borrow_mut", "try_borrow") for r in recv)))
    return sorted(out)


def _norm_cond(s, t):
    s = re.sub(r"@[^ )]*:bb\d+", "", s)
    return "%s=%s" % (s, t)


def _norm_recv(r):
    r = re.sub(r"@[^ )]*:bb\d+", "", r)
    # the iterator expression itself (`self` vs `self.iter()`) is validated by loop_shape; siblings compare items only
    r = re.sub(r"^\(next\(.*\) as Some\)\.0$", "(next(<iterator over self>) as Some).0", r)
    return r


def expected(kind, n, method, X, recv, S):
    lits = X.literals
    if kind == "tuple":
        return sorted("*self.%d" % i for i in range(n))
    if kind == "empty":
        return []
    if kind == "option":
        some = any(a[0] == "discr" and fmt(strip(a[1])) in ("*self", "self") and t in (("is", 1), ("not", 0)) for a, t in lits)
        return ["(*self as Some).0"] if some else []
    if kind == "result":
        ok = any(a[0] == "discr" and fmt(strip(a[1])) in ("*self", "self") and t in (("is", 0), ("not", 1)) for a, t in lits)
        err = any(a[0] == "discr" and fmt(strip(a[1])) in ("*self", "self") and t in (("is", 1), ("not", 0)) for a, t in lits)
        if ok:
            return ["(*self as Ok).0"]
        if err:
            return ["(*self as Err).0"]
        return None
    if kind == "deref":
        # Deref::deref(self) is the identity on designation
        return ["self"] if recv == ["self"] else (["*self"] if recv == ["*self"] else ["self"])
    if kind == "refcell":
        want = "try_borrow_mut" if method == "trace" else "try_borrow"
        okp = None
        for a, t in lits:
            if a[0] == "discr" and ("%s(self)" % want) in fmt(a[1]) and not (want == "try_borrow" and "try_borrow_mut" in fmt(a[1])):
                okp = t in (("is", 0), ("not", 1))
        if okp is None:
            return None
        if okp:
            return [r for r in recv] if len(recv) == 1 and re.match(r"^\(%s\(self\)(@[^ ]*)? as Ok\)\.0$" % want, recv[0]) else ["(%s(self) as Ok).0" % want]
        return []
    if kind == "iter":
        somes = [1 for a, t in lits if a[0] == "discr" and "next(" in fmt(a[1]) and t in (("is", 1), ("not", 0))]
        items = [r for r in recv if re.match(r"^\(next\(.*\)(@[^ ]*)? as Some\)\.0$", r)]
        if len(items) == len(recv) == len(somes):
            return recv
        return ["<one call per yielded item>"] * len(somes)
    if kind == "iter_pairs":
        # maps yield (&K, &V): per yielded item exactly one call on the key and one on the value
        somes = [1 for a, t in lits if a[0] == "discr" and "next(" in fmt(a[1]) and t in (("is", 1), ("not", 0))]
        keys = [r for r in recv if re.match(r"^\*?\(?\(next\(.*\)(@[^ ]*)? as Some\)\.0\)?\.0$", r)]
        vals = [r for r in recv if re.match(r"^\*?\(?\(next\(.*\)(@[^ ]*)? as Some\)\.0\)?\.1$", r)]
        if len(keys) == len(vals) == len(somes) and len(keys) + len(vals) == len(recv):
            return recv
        return ["<one call on the key and one on the value per yielded item>"] * len(somes)
    if kind == "cc":
        if method == "trace":
            return ["*self.inner"]
        return []
    if kind == "ccbox":
        return ["*self.elem"]
    if kind == "wrapper":
        return ["*self.inner"]
    return None


def loop_shape(S, method):
    """Canonical `for x in self` loop: into_iter(self) once, one next() site on a cycle, exit only on None."""
    probs = []
    ii = [n for n in S.call_nodes() if n.ci["k"] == "call" and n.ci["npath"] == "std::iter::IntoIterator::into_iter"]
    src_ok = False
    if len(ii) == 1:
        def whole(x):
            # views of the whole receiver: Deref to the slice, as_slice(), as_ref() (designation-transparent, no sub-range)
            x = strip(x)
            while isinstance(x, tuple) and x[0] in ("call", "ret") and x[1].endswith(("Deref::deref", "::as_slice", "AsRef::as_ref", "::as_mut_slice")) and x[2]:
                x = strip(x[2][0])
            return x
        a0 = whole(S.args_of(ii[0])[0])
        if a0 == ("param", "self", 1):
            src_ok = True
        elif isinstance(a0, tuple) and a0[0] in ("call", "ret") and a0[1].endswith("::iter") and len(a0[2]) == 1:
            # `self.iter()`: slice/Vec/array iter over the whole receiver
            src_ok = whole(a0[2][0]) == ("param", "self", 1)
    if not src_ok:
        probs.append("iterator is not built from the whole `self`: %s" % [fmt(S.args_of(x)[0]) for x in ii])
    nx = [n for n in S.call_nodes() if n.ci["k"] == "call" and n.ci["npath"] == "std::iter::Iterator::next"]
    if len(nx) != 1 or not on_cycle(S, nx[0], exclude=("ui", "u")):
        probs.append("expected exactly one Iterator::next site inside the loop, found %d" % len(nx))
    else:
        if "into_iter(" not in fmt(S.args_of(nx[0])[0]) or "self" not in fmt(S.args_of(nx[0])[0]):
            probs.append("next() is called on %s, not on the iterator over self" % fmt(S.args_of(nx[0])[0]))
        for r in S.returns:
            lits = S.literals_at(r, exclude=("ui", "u"))
            if not any(a[0] == "discr" and "next(" in fmt(a[1]) and t in (("is", 0), ("not", 1)) for a, t in lits):
                probs.append("a return is not behind next()==None")
        # adapters between into_iter and next (skip, take, rev...) would show up as extra calls on the iterator
        extra = [n.ci["npath"] for n in S.call_nodes() if n.ci["k"] == "call" and n.ci["npath"].startswith("std::iter::Iterator::") and n.ci["npath"] != "std::iter::Iterator::next"]
        extra += [n.ci["npath"] for n in S.call_nodes() if n.ci["k"] == "call" and n.ci["npath"].rsplit("::", 1)[-1] in ("skip", "take", "rev", "step_by", "split_at", "split_first", "split_last", "get", "chunks", "windows", "first", "last")]
        if extra:
            probs.append("iterator adapters in the loop header: %s" % extra)
    return probs
