"""C12 - Collector phases are observable and collections never nest."""
from engine.graph import Super, fmt, strip, U_KINDS
from engine.flags import FlagRun, GET, SET
from engine import tables
from .common import *

LEVEL = "other"
EXPLANATION = ("Static necessary conditions of C12 decided on MIR facts of /repo's current tree: (R12.1) truth table of State::is_tracing against "
               "`collecting & !finalizing & !dropping`; (R12.2) abstract interpretation of the three phase flags over the inlined supergraph of every public "
               "entry point, closed under re-entrancy (user code at FINALIZE/DROP/ACTION/CLOSURE sites may call any entry point in the state reached there): "
               "every Trace::trace callback site must be reached only with is_tracing()==true and every other callback site only with is_tracing()==false, and "
               "finalizer/payload-destructor sites only with a refusal flag set; (R12.3) every call of `collect` is dominated by is_collecting()==false; "
               "(R12.4) try_unwrap's refusal paths and finalize_again's guard. Not decided: that user Trace impls obey the trait contract.")


def api_entries(F, P):
    """Public entry points whose execution consults or changes collector state."""
    names = [
        "collect_cycles", "cc::Cc::<T>::new", "cc::Cc::<T>::try_unwrap", "<cc::Cc<T> as std::ops::Drop>::drop",
        "<cc::Cc<T> as std::clone::Clone>::clone", "cc::Cc::<T>::mark_alive", "<cc::Cc<T> as std::default::Default>::default",
        "<cc::Cc<T> as std::convert::From<T>>::from",
    ]
    if F.has("finalization"):
        names.append("cc::Cc::<T>::finalize_again")
    if F.has("weak-ptrs"):
        names += ["weak::<impl cc::Cc<T>>::new_cyclic", "weak::<impl cc::Cc<T>>::downgrade", "weak::Weak::<T>::upgrade",
                  "<weak::Weak<T> as std::ops::Drop>::drop", "<weak::Weak<T> as std::clone::Clone>::clone"]
    if F.has("cleaners"):
        names += ["cleaners::Cleaner::register", "cleaners::Cleanable::clean", "<cleaners::CleaningAction as std::ops::Drop>::drop"]
    fns = [anchor(F, n) for n in names]
    seen = {f.id for f in fns}
    # any other public function that can reach a callback or touches a flag is an entry as well
    for f in F.fns.values():
        if f.id in seen or f.kind == "closure" or f.vis != "pub":
            continue
        if f.impl_of and f.impl_of.get("trait") and not any(t in f.impl_of["self_ty"] for t in ("Cc<", "Weak<", "Cleaner", "Cleanable")):
            continue
        if P.fn_mayU(f) & {"TRACE", "FINALIZE", "DROP", "ACTION", "CLOSURE"}:
            if f.impl_of and f.impl_of.get("trait") and f.impl_of["trait"].endswith(("Trace", "Finalize")):
                continue   # container impls only forward
            fns.append(f)
            seen.add(f.id)
    return fns


def flag_opaque_old(F):
    """For the flag analysis everything except the primitive counter/list/state operations is expanded."""
    s = set()
    for f in F.fns.values():
        np = f.npath
        if np.startswith((CM, WCM, ST, LL, PC, LQ)) and "{closure" not in np:
            s.add(np)
    s |= {"utils::cc_alloc", "utils::cc_dealloc", "utils::alloc_other", "utils::dealloc_other"}
    return s


def site_kind(S, n):
    """Callback kind of a non-expanded site, with payload drops distinguished."""
    ci = n.ci
    k = ci.get("ukind")
    if k == "DROP" and ci["k"] == "call":
        a = S.args_of(n)
        if a and _mentions_elem(a[0]):
            return "DROP_PAYLOAD"
    return k


def _mentions_elem(e, depth=0):
    if depth > 10 or not isinstance(e, tuple):
        return False
    if e and e[0] == "field" and e[2] == "elem":
        return True
    if e and e[0] in ("call", "ret") and e[1].endswith("get_elem_mut"):
        return True
    return any(_mentions_elem(x, depth + 1) for x in e)


def run_flag_fixpoint(F, P, entries=None):
    """Returns (E, observations) where observations = list of dicts per (entry fn, entry state, site)."""
    has_fin = F.has("finalization")
    entries = entries or api_entries(F, P)
    opaque = flag_opaque(F)
    supers = {}
    for f in entries:
        supers[f.id] = Super(P, f, opaque=opaque, getter_sites=True, expand_user_dtors=True)
    E = {(0, 0, 0): ("initial", None)}
    obs = []
    done = set()
    work = [(0, 0, 0)]
    exits = []
    while work:
        e = work.pop()
        for f in entries:
            if (f.id, e) in done:
                continue
            done.add((f.id, e))
            S = supers[f.id]
            run = FlagRun(S, e)
            for n in S.nodes:
                if n.ci is None or n.inlined:
                    continue
                k = n.ci.get("ukind")
                if k not in U_KINDS:
                    continue
                for fl in run.flags_at(n):
                    if not has_fin:
                        pass
                    obs.append({"entry": f.npath, "entry_state": e, "kind": site_kind(S, n), "site_fn": n.ctx.fn.npath,
                                "where": n.where(), "flags": fl, "cleanup": n.is_cleanup,
                                "chain": [P.fns[c].npath for c in n.ctx.chain]})
                    if k != "TRACE" and fl not in E:
                        E[fl] = (f.npath, n.where(), e)
                        work.append(fl)
            exits.append((f.npath, e, run.exit_states))
    return E, obs, exits


def is_tracing_of(flags, has_fin):
    c, f, d = flags
    return bool(c and not d and (not f or not has_fin))


def check(R, F, P, cfg):
    has_fin = F.has("finalization")

    # ---- R12.1 decision table of State::is_tracing --------------------------------------
    R.doc("R12.1", "truth table of State::is_tracing equals collecting & !finalizing & !dropping (without `finalization`: collecting & !dropping)")
    f = anchor(F, ST + "is_tracing")
    S = Super(P, f, opaque=default_opaque(F))
    paths = tables.normal_paths(S)

    def field_atom(e):
        e = strip(e)
        if isinstance(e, tuple) and e and e[0] == "load":
            x = strip(e[1])
            if x[0] == "field" and x[2] in ("collecting", "finalizing", "dropping") and strip(x[1])[0] == "param":
                return x[2]
        if isinstance(e, tuple) and e and e[0] == "call" and e[1] in GET:
            return ("collecting", "finalizing", "dropping")[GET[e[1]]]
        return None

    def atomise(a, tr):
        if a[0] == "bool":
            n = field_atom(a[1])
            if n:
                return (n, tr)
        return None

    atoms = ["collecting", "dropping"] + (["finalizing"] if has_fin else [])

    def spec(asg):
        return asg["collecting"] and not asg["dropping"] and not asg.get("finalizing", False)

    def result_of(p, asg):
        return tables.eval_bool(p.retval(), asg, field_atom)

    probs = tables.check_table(paths, atomise, spec, result_of, atoms)
    R.inst("R12.1", "is_tracing-table", not probs, "; ".join(probs) if probs else "%d paths, %d atoms: table matches" % (len(paths), len(atoms)), where=f.span, cfg=cfg)

    # ---- R12.2 flags at callback sites under the re-entrancy fixpoint --------------------
    R.doc("R12.2", "for every entry state the API can be entered in (least fixpoint over callback sites), TRACE sites are reached only with is_tracing()==true, "
                   "every other callback site only with is_tracing()==false; FINALIZE and payload-DROP sites additionally with collecting|finalizing|dropping set")
    E, obs, exits = run_flag_fixpoint(F, P)
    seen = set()
    n_obs = 0
    for o in obs:
        key_site = "%s@%s" % (o["kind"], o["site_fn"])
        k = (key_site, o["flags"])
        tracing = is_tracing_of(o["flags"], has_fin)
        if o["kind"] == "TRACE":
            ok = tracing
            need = "is_tracing()==true"
        elif o["kind"] in ("FINALIZE", "DROP_PAYLOAD"):
            ok = (not tracing) and any(o["flags"])
            need = "is_tracing()==false and a refusal flag set"
        else:
            ok = not tracing
            need = "is_tracing()==false"
        if k in seen and ok:
            continue
        seen.add(k)
        n_obs += 1
        how = E.get(o["entry_state"])
        R.inst("R12.2", "flags:%s" % key_site, ok,
               "%s site in %s reached with (collecting,finalizing,dropping)=%s; required: %s. entry point %s entered in state %s%s; inline chain: %s" % (
                   o["kind"], o["site_fn"], o["flags"], need, o["entry"], o["entry_state"],
                   "" if not how or how[0] == "initial" else " (that state arises at the callback site %s of %s)" % (how[1], how[0]),
                   " > ".join(c.split("::")[-1] for c in o["chain"])),
               where=o["where"], cfg=cfg)
    R.floor("R12.2", cfg, 4, n_obs)

    # ---- R12.7 the collector's drop phase is closed ------------------------------------------
    R.doc("R12.7", "inside the collector's drop phase (an API entry state with collecting & dropping, i.e. a call made by a destructor the collector runs) "
                   "every callback site is reached with `dropping` still set: nothing reachable from such a destructor (a finalizer run by a nested Cc::drop, "
                   "a guard, a wrapper) may clear the flag, because Weak::upgrade/strong_count refuse collector-owned objects only while it is set; "
                   "a nested collection cannot start there (R12.3), so collect's own reset of the flag is not reachable")
    seen7 = set()
    n7 = 0
    for o in obs:
        c0, f0, d0 = o["entry_state"]
        if not (c0 and d0):
            continue
        key_site = "%s@%s" % (o["kind"], o["site_fn"])
        ok = bool(o["flags"][2])
        k = (key_site, ok)
        if k in seen7:
            continue
        seen7.add(k)
        n7 += 1
        how = E.get(o["entry_state"])
        R.inst("R12.7", "drop-phase-closed:%s" % key_site, ok,
               "%s site in %s reached with (collecting,finalizing,dropping)=%s from entry point %s entered in the drop-phase state %s%s; required: dropping still set; inline chain: %s" % (
                   o["kind"], o["site_fn"], o["flags"], o["entry"], o["entry_state"],
                   "" if not how or how[0] == "initial" else " (that state arises at the callback site %s of %s)" % (how[1], how[0]),
                   " > ".join(c.split("::")[-1] for c in o["chain"])),
               where=o["where"], cfg=cfg)
    R.floor("R12.7", cfg, 1, n7)   # without finalization and weak-ptrs the payload drop of a nested Cc::drop is the only callback site of the drop phase
    R.notes["reachable_entry_states[%s]" % cfg] = sorted("%s via %s" % (e, how[0]) for e, how in E.items())

    # ---- R12.3 collect is only called under is_collecting()==false ------------------------
    R.doc("R12.3", "every call of `collect` is dominated by the false edge of is_collecting(); callers are a closed set")
    collect = anchor(F, "collect")
    callers = P.callers(collect.id)
    expected = {"collect_cycles"} | ({"trigger_collection"} if F.has("auto-collect") else set())
    got = set()
    for (cf, bb, ci) in callers:
        rootf = P.fns[cf.root] if cf.kind == "closure" else cf
        got.add(rootf.npath)
        S = Super(P, rootf, opaque=default_opaque(F))
        for n in S.calls_to("collect"):
            lits = S.literals_at(n)
            ok = any(a[0] == "bool" and strip(a[1])[0] == "call" and strip(a[1])[1] == ST + "is_collecting" and tr is False for a, tr in lits)
            R.inst("R12.3", "collect-guard:%s" % rootf.npath, ok,
                   "call of collect in %s: literals on every path = {%s}; required is_collecting()==false" % (rootf.npath, ", ".join(("" if tr else "!") + tables.fmt_atom(a) for a, tr in lits if tr in (True, False))),
                   where=n.where(), cfg=cfg)
    R.inst("R12.3", "collect-callers", got <= expected and got, "callers of collect: %s (allowed: %s)" % (sorted(got), sorted(expected)), cfg=cfg)

    check_wrappers(R, F, P, cfg, "R12.5")
    tracing_guards(R, F, P, cfg)

    # ---- R12.4 try_unwrap refusal paths are effect free --------------------------------------
    R.doc("R12.4", "every path of Cc::try_unwrap on which a phase flag read is true returns Err(self) with no mutator executed; finalize_again's flag write is dominated by all three flags being false")
    tu = anchor(F, "cc::Cc::<T>::try_unwrap")
    S = Super(P, tu, opaque=default_opaque(F))
    paths = tables.normal_paths(S)
    n_ref = 0
    flag_names = [ST + "is_collecting", ST + "is_dropping"] + ([ST + "is_finalizing"] if has_fin else [])
    for p in paths:
        flag_true = [a for a, tr in p.literals if a[0] == "bool" and strip(a[1])[0] == "call" and strip(a[1])[1] in flag_names and tr is True]
        if not flag_true:
            continue
        n_ref += 1
        muts = effect_calls(p.events)
        usites = [n for n in p.events if n.ci.get("ukind") in U_KINDS]
        R.inst("R12.4", "try_unwrap-refusal:%s" % short(strip(flag_true[0][1])[1]), not muts and not usites,
               "refusal path [%s]: mutators executed: %s; callbacks: %s" % (p.describe()[:200], [short(n.ci["npath"]) for n in muts], [n.ci.get("ukind") for n in usites]),
               where=tu.span, cfg=cfg)
    R.floor("R12.4", cfg, len(flag_names), n_ref)
    # the success path must have all flags false
    for n in S.calls_to("utils::cc_dealloc"):
        lits = S.literals_at(n)
        have = {strip(a[1])[1] for a, tr in lits if a[0] == "bool" and tr is False and strip(a[1])[0] == "call"}
        missing = [x for x in flag_names if x not in have]
        R.inst("R12.4", "try_unwrap-success-flags", not missing, "cc_dealloc in try_unwrap is dominated by the false edge of %s; missing: %s" % (sorted(short(h) for h in have), [short(m) for m in missing]), where=n.where(), cfg=cfg)

    if has_fin:
        fa = anchor(F, "cc::Cc::<T>::finalize_again")
        S = Super(P, fa, opaque=default_opaque(F))
        sites = S.calls_to(CM + "set_finalized")
        for n in sites:
            lits = S.literals_at(n)
            ok = check_finalize_again_guard(S, n, lits)
            R.inst("R12.4", "finalize_again-guard", ok[0], ok[1], where=n.where(), cfg=cfg)
        R.floor("R12.4/finalize_again", cfg, 1, len(sites))


def check_finalize_again_guard(S, n, lits):
    """The guard is `assert!(state(|s| !c && !f && !d))`: the write must be dominated by the true edge of a
    boolean whose closure evaluates to the conjunction of the three negated flag reads."""
    for a, tr in lits:
        if a[0] != "bool":
            continue
        e = strip(a[1])
        want = tr
        while isinstance(e, tuple) and e and e[0] == "un" and e[1] == "Not":
            e = e[2]
            want = not want
        # value produced by state(closure): find the closure and enumerate its paths
        env = find_env(e, want_root=n.ctx.fn.id if n.ctx.fn.kind != "closure" else n.ctx.fn.root, P=S.P)
        if env is None:
            continue
        cf = S.P.fns[env[1]]
        CS = Super(S.P, cf, opaque=default_opaque(S.P.F))
        ps = tables.normal_paths(CS)
        atoms = ["c", "f", "d"]
        names = {ST + "is_collecting": "c", ST + "is_finalizing": "f", ST + "is_dropping": "d"}

        def atom_of(x):
            x = strip(x)
            if isinstance(x, tuple) and x and x[0] == "call" and x[1] in names:
                return names[x[1]]
            return None

        def atomise(at, t):
            if at[0] == "bool":
                nm = atom_of(at[1])
                if nm:
                    return (nm, t)
            return None
        probs = tables.check_table(ps, atomise, lambda asg: (not asg["c"] and not asg["f"] and not asg["d"]) == want,
                                   lambda p, asg: tables.eval_bool(p.retval(), asg, atom_of), atoms)
        if not probs:
            return True, "set_finalized(false) is dominated by state(|s| !collecting && !finalizing && !dropping) == true (closure truth table checked, %d paths)" % len(ps)
        return False, "guard closure does not compute !collecting && !finalizing && !dropping: " + "; ".join(probs)
    return False, "no dominating guard on the three phase flags found; literals: %s" % [tables.fmt_atom(a) for a, _ in lits]


def find_env(e, depth=0, want_root=None, P=None):
    if depth > 14 or not isinstance(e, tuple):
        return None
    if e and e[0] == "env" and (want_root is None or (e[1] in P.fns and P.fns[e[1]].root == want_root)):
        return e
    for x in e:
        r = find_env(x, depth + 1, want_root, P)
        if r is not None:
            return r
    return None


def tracing_guards(R, F, P, cfg):
    """R12.6: the debug-build guards of the pointer API ("Cannot <op> while tracing!") fire exactly in the tracing phase: each such
    panic is reached only under `is_tracing() == true` of the thread's state - not under another flag (a guard on is_dropping would
    make Deref panic inside every destructor the collector runs and stay silent while tracing)."""
    R.doc("R12.6", "every panic whose message says `while tracing` is dominated by the true edge of State::is_tracing() (directly or through state(|s| s.is_tracing()))")
    k = 0
    for f in F.fns.values():
        if f.npath.startswith("tests::") or "::tests::" in f.npath:
            continue
        for bi, b in enumerate(f.blocks):
            t = b["term"]
            if t["k"] != "call":
                continue
            msg = [a.get("text", "") for a in t["args"] if a["k"] == "const" and "while tracing" in str(a.get("text", ""))]
            if not msg:
                continue
            rootf = site_root(P, f)
            S = Super(P, rootf, opaque=default_opaque(F) - {rootf.npath})
            for n in [y for y in S.nodes if y.ctx.fn is f and y.bb == bi]:
                k += 1
                lits = S.literals_at(n, exclude=("ui", "u"))
                ok = False
                for a, tr in lits:
                    if a[0] != "bool" or tr is not True:
                        continue
                    e = strip(a[1])
                    if isinstance(e, tuple) and e and e[0] == "call" and e[1] == ST + "is_tracing":
                        ok = True
                    if isinstance(e, tuple) and e and e[0] == "ret" and e[1] in ("state::state", "state::try_state") and e[2]:
                        v = tables.closure_value(S, e[2][0])
                        if v is not None and strip(v)[0] == "call" and strip(v)[1] == ST + "is_tracing":
                            ok = True
                R.inst("R12.6", "tracing-guard:%s" % rootf.npath, ok, "%s in %s is reached under {%s}; required State::is_tracing() == true" % (msg[0][:60], rootf.npath, lits_str(lits)[:200]), where=n.where(), cfg=cfg)
    if F.debug:
        R.floor("R12.6", cfg, 4, k)
