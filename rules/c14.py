"""C14 - new_cyclic: Weak dead until initialised; uninitialised data never touched."""
from engine.graph import Super, fmt, strip, U_KINDS
from engine import tables
from .common import *
from . import c07

LEVEL = "other"
EXPLANATION = ("Initialisation-order typestate of Cc::new_cyclic on the MIR facts (weak-ptrs configurations): (R14.1) box allocation < get_or_init_metadata < weak increment < strong "
               "decrement (to 0) < panic guard < closure call < forget(guard) < MaybeUninit::write < strong increment < Cc construction, all on one box, with no user callback between the "
               "allocation and the write other than the closure; the value written is the closure's result; (R14.2 = R-UNINIT-DROP) no value of a type whose Drop assumes an "
               "initialised MaybeUninit is droppable on the unwind path of any call that can reach user code; plus R7.5 (guard frees without dropping) and R3.1 (repr(transparent)). "
               "With the strong count at 0 while the closure runs, R8.1's table gives strong_count()==0 / upgrade()==None inside it.")


def check(R, F, P, cfg):
    if not F.has("weak-ptrs"):
        R.inst("R14.0", "no-weak-ptrs", True, "configuration without weak-ptrs: new_cyclic does not exist", cfg=cfg, nontrivial=False)
        return
    DO = default_opaque(F)
    nc = anchor(F, "weak::<impl cc::Cc<T>>::new_cyclic")
    S = Super(P, nc, opaque=DO - {nc.npath})

    R.doc("R14.1", "dominance chain of the initialisation steps of new_cyclic on one box; closure is the only callback between allocation and write")
    def one(name, pred):
        ns = [x for x in S.nodes if not x.is_cleanup and not _in_dtor(x) and x.ci is not None and pred(x)]
        return ns
    alloc = one("alloc", lambda x: x.ci["k"] == "call" and x.ci["npath"] == CCBOX + "new" and not x.inlined)
    if not alloc:
        alloc = one("alloc", lambda x: x.ci["k"] == "call" and x.ci["npath"] == "cc::Cc::<T>::new" and not x.inlined)
    gim = one("gim", lambda x: is_call(x, CCBOX + "get_or_init_metadata"))
    winc = one("winc", lambda x: is_call(x, WCM + "increment_counter"))
    sdec = one("sdec", lambda x: is_call(x, CM + "decrement_counter"))
    clo = [x for x in S.usite_nodes(("CLOSURE",)) if not x.is_cleanup]
    fg = [x for x in S.calls_to("std::mem::forget") if "PanicGuard" in fmt(S.args_of(x)[0]) or "Guard" in x.term["callee"]["substs"][0]]
    wr = one("write", lambda x: is_call(x, "std::mem::MaybeUninit::<T>::write"))
    sinc = one("sinc", lambda x: is_call(x, CM + "increment_counter"))
    ccb = [x for x in S.nodes if x.ci is not None and x.ci["k"] == "call" and x.ci["npath"] == "cc::Cc::<T>::__new_internal" and not x.is_cleanup]
    chain = [("box allocation", alloc), ("get_or_init_metadata", gim), ("weak increment", winc), ("strong decrement", sdec), ("closure call", clo),
             ("forget(guard)", fg), ("MaybeUninit::write", wr), ("strong increment", sinc), ("Cc construction", ccb)]
    missing = [nm for nm, ns in chain if len(ns) != 1]
    ok = not missing
    order = []
    if ok:
        for (a, b) in zip(chain, chain[1:]):
            d = S.dominates(a[1][0], b[1][0], exclude=("ui", "u"))
            order.append("%s<%s=%s" % (a[0], b[0], d))
            ok = ok and d
    R.inst("R14.1", "init-order", ok, "steps with != 1 site: %s; dominance: %s" % (missing or "none", "; ".join(order)), where=nc.span, cfg=cfg)
    if not missing:
        # same box everywhere
        box = obj_of(S.args_of(gim[0])[0])
        same = obj_of(S.args_of(sdec[0])[0]) == box and obj_of(S.args_of(sinc[0])[0]) == box and fmt(box) in fmt(S.args_of(wr[0])[0]) and \
            obj_of(S.resolve_op(ccb[0].ctx, ccb[0].term["args"][0])) == box and fmt(box) in fmt(S.args_of(winc[0])[0])
        R.inst("R14.1", "same-box", same, "all steps act on the box %s: %s" % (fmt(box)[:80], same), where=nc.span, cfg=cfg)
        # the guard exists when the closure runs: a PanicGuard aggregate on that box dominates the closure call
        guard = False
        for x in S.nodes:
            for s in x.stmts:
                if s["k"] == "assign" and s["rv"]["k"] == "agg" and "PanicGuard" in s["rv"].get("adt", ""):
                    if S.dominates(x, clo[0], exclude=("ui", "u")) and S.dominates(sdec[0], x, exclude=("ui", "u")) and obj_of(S.resolve_op(x.ctx, s["rv"]["ops"][0])) == box:
                        guard = True
        R.inst("R14.1", "guard-before-closure", guard, "a panic guard holding the box is built after the strong decrement and before the closure call: %s" % guard, where=clo[0].where(), cfg=cfg)
        # value written is the closure result
        val = S.args_of(wr[0])[1]
        R.inst("R14.1", "writes-closure-result", "call_once(f" in fmt(val), "MaybeUninit::write(.., %s): required the closure's result" % fmt(val)[:80], where=wr[0].where(), cfg=cfg)
        # no other callback between allocation and write on normal paths
        between = S.reachable(alloc[0], exclude=("ui", "u"), stop=lambda x: x is wr[0])
        others = [x for x in S.mayU_nodes() if x.idx in between and x is not clo[0] and x is not alloc[0] and not x.is_cleanup]
        R.inst("R14.1", "only-closure-between-alloc-and-write", not others, "calls that may reach user code between the allocation and the write (other than the closure): %s" % ([x.where() for x in others] or "none"), where=nc.span, cfg=cfg)
        # the strong count is 0 while the closure runs: decrement from the constant initial 1, no increment in between
        incs_between = [x for x in S.calls_to(CM + "increment_counter") if x.idx in S.reachable(sdec[0], exclude=("ui", "u"), stop=lambda y: y is clo[0]) and x is not sinc[0]]
        R.inst("R14.1", "count-zero-in-closure", not incs_between and 1 in (word_layout(F)["INIT"] or []), "no strong increment between the decrement and the closure; initial count values = %s" % word_layout(F)["INIT"], where=nc.span, cfg=cfg)

    c07.check_uninit_drop(R, F, P, cfg, "R14.2")
    R.doc("R14.2", "R-UNINIT-DROP: a value whose type's Drop assumes an initialised MaybeUninit is never droppable on the unwind path of a call that may reach user code")


def _in_dtor(x):
    c = x.ctx
    while c is not None:
        if c.via == "dtor":
            return True
        c = c.parent
    return False
