"""C01 - No premature reclamation."""
from engine.graph import Super, fmt, strip, U_KINDS
from engine import tables
from .common import *
from . import c07

LEVEL = "other"
EXPLANATION = ("Structural necessary conditions of `only unreachable objects are reclaimed`, decided on the MIR facts of /repo's current tree in every feature "
               "configuration: (R1.1) the set of functions that free a box or drop/move a payload is closed; (R1.2) the reference-count path of Cc::drop frees only under "
               "!is_in_list_or_queue & counter==1, with exactly one decrement per path and un-buffering before the free; (R1.3) the classification predicates of "
               "__trace_counting and CcBox::trace (counter==tracing_counter, marks) guard exactly the list moves of the trial-deletion protocol, with list roles "
               "propagated from __collect; (R1.4) phase order in __collect; (R1.5) traversal loops run until their container is empty; (R1.6) the tracing counter is "
               "reset at each entry into the buffer/queue before it is incremented; (R1.7=R-IDLE-TC) no buffered object keeps a non-zero tracing counter after an "
               "unwound collection; (R1.8) only CcBox::trace counts and only <Cc as Trace>::trace calls it; (R1.9) every Cc built from an existing box is dominated "
               "by the Ok edge of increment_counter; (R1.10) remove_from_list unlinks only buffered objects. The correctness of trial deletion given these clauses is "
               "a paper argument (DESIGN section 3), not machine-checked.")


def check(R, F, P, cfg):
    fin = F.has("finalization")
    weak = F.has("weak-ptrs")
    DO = default_opaque(F)

    # ---- R1.1 who may free / drop the payload -------------------------------------------------
    R.doc("R1.1", "closed set of functions that call cc_dealloc, raw dealloc, drop_in_place/ptr::read on a payload or InternalTrace::drop_elem")
    allowed = {
        "utils::cc_dealloc": {"<cc::Cc<T> as std::ops::Drop>::drop", "cc::Cc::<T>::try_unwrap", "deallocate_list"} | ({"weak::<impl cc::Cc<T>>::new_cyclic"} if weak else set()),
        "std::alloc::dealloc": {"utils::cc_dealloc", "utils::dealloc_other"},
        "std::ptr::drop_in_place": {"<cc::Cc<T> as std::ops::Drop>::drop", "<cc::CcBox<T> as cc::InternalTrace>::drop_elem"} | ({"<weak::NewCyclicWrapper<T> as std::ops::Drop>::drop"} if weak else set()),
        "std::ptr::read": {"cc::Cc::<T>::try_unwrap"},
        "cc::InternalTrace::drop_elem": {CCBOX0 + "drop_inner"},
        CCBOX0 + "drop_inner": {"deallocate_list"},
        "std::mem::ManuallyDrop::<T>::drop": {"deallocate_list"},
        "std::mem::ManuallyDrop::<T>::take": set(),
        "std::ptr::mut_ptr::<impl *mut T>::drop_in_place": set(),
        "std::ptr::mut_ptr::<impl *mut T>::read": set(),
        "std::ptr::const_ptr::<impl *const T>::read": set(),
        "std::mem::MaybeUninit::<T>::assume_init_drop": set(),
        "std::mem::MaybeUninit::<T>::assume_init_read": set(),
        "std::mem::MaybeUninit::<T>::assume_init": set(),
        "std::ptr::read_unaligned": set(), "std::ptr::read_volatile": set(), "std::ptr::replace": set(), "std::ptr::swap": set(), "std::mem::replace#payload": set(),
        "std::boxed::Box::<T>::from_raw": set(), "std::alloc::realloc": set(),
    }
    n11 = 0
    for callee, ok_set in allowed.items():
        own = owners_of_calls(P, lambda ci, c=callee: ci["npath"] == c or ci["npath"].startswith(c + "::<"))
        for o, sites in own.items():
            n11 += 1
            R.inst("R1.1", "who-may:%s@%s" % (short(callee), o), o in ok_set,
                   "%s is called in %s (%d site(s)); functions allowed to do so: %s" % (short(callee), o, len(sites), sorted(ok_set) or "none"),
                   where="%s bb%d" % (sites[0][0].npath, sites[0][1]), cfg=cfg, nontrivial=False)
    R.floor("R1.1", cfg, 7, n11)

    # ---- R1.2 reference-count path of Cc::drop -------------------------------------------------
    R.doc("R1.2", "in Cc::drop, payload drop and cc_dealloc are reached only under !is_in_list_or_queue(self) & counter(self)==1, after exactly one decrement_counter, "
                  "with remove_from_list(self) before cc_dealloc; add_to_list only under !is_in_list_or_queue(self)")
    dr = anchor(F, "<cc::Cc<T> as std::ops::Drop>::drop")
    S = Super(P, dr, opaque=DO - {dr.npath})
    selfobj = None
    for n in S.calls_to("utils::cc_dealloc"):
        selfobj = obj_of(S.args_of(n)[0])
    frees = S.calls_to("utils::cc_dealloc") + [n for n in S.usite_nodes(("DROP",)) if n.ci["k"] == "call"]
    for n in frees:
        lits = S.literals_at(n, exclude=("ui", "u"))
        ok = has_lit(lits, CM + "is_in_list_or_queue", False, selfobj) and has_cmp_const(lits, CM + "counter", "Eq", 1, True, selfobj)
        R.inst("R1.2", "rc-guard:%s" % short(n.ci["npath"]), ok,
               "%s in Cc::drop is guarded by %s; required: !is_in_list_or_queue(self) and counter(self)==1" % (short(n.ci["npath"]), lits_str(lits)), where=n.where(), cfg=cfg)
    R.floor("R1.2", cfg, 2, len(frees))
    for n in S.calls_to("utils::cc_dealloc"):
        rm = [x for x in S.calls_to("cc::remove_from_list") if obj_of(S.args_of(x)[0]) == selfobj and S.dominates(x, n, exclude=("ui", "u"))]
        R.inst("R1.2", "unbuffer-before-free", bool(rm), "cc_dealloc(self) in Cc::drop is %sdominated by remove_from_list(self): a freed object would stay linked in the buffer otherwise" % ("" if rm else "NOT "), where=n.where(), cfg=cfg)
    for n in [x for x in S.usite_nodes(("DROP",)) if x.ci["k"] == "call"]:
        rm = [x for x in S.calls_to("cc::remove_from_list") if obj_of(S.args_of(x)[0]) == selfobj and S.dominates(x, n, exclude=("ui", "u"))]
        dec = [x for x in S.calls_to(CM + "decrement_counter") if obj_of(S.args_of(x)[0]) == selfobj and S.dominates(x, n, exclude=("ui", "u"))]
        R.inst("R1.2", "unbuffer-before-payload-drop", bool(rm) and bool(dec),
               "the payload destructor (user code: may panic or start a collection) runs %s remove_from_list(self) and %s the decrement to 0: a box that is still buffered with count 0 while its value is being/has been dropped would be traced and reclaimed again by the next collection" % ("after" if rm else "BEFORE", "after" if dec else "BEFORE"), where=n.where(), cfg=cfg)
    for n in S.calls_to("cc::add_to_list"):
        lits = S.literals_at(n, exclude=("ui", "u"))
        ok = has_lit(lits, CM + "is_in_list_or_queue", False, selfobj)
        R.inst("R1.2", "add_to_list-guard", ok, "add_to_list(self) in Cc::drop under %s; required !is_in_list_or_queue(self) (re-linking a collector-owned node corrupts its list)" % lits_str(lits), where=n.where(), cfg=cfg)
    # exactly one decrement per normal path
    paths = tables.normal_paths(S, limit=20000)
    bad = []
    for p in paths:
        k = len([x for x in p.calls(CM + "decrement_counter") if obj_of(S.args_of(x)[0]) == selfobj])
        if k != 1:
            bad.append("%d decrements on path [%s]" % (k, p.describe()[:160]))
    R.inst("R1.2", "one-decrement-per-path", not bad and len(paths) >= 3, "%d normal paths of Cc::drop, each with exactly one decrement_counter(self): %s" % (len(paths), bad[:3] or "yes"), where=dr.span, cfg=cfg)

    # ---- R1.3 classification predicates ----------------------------------------------------------
    R.doc("R1.3", "__trace_counting adds the popped object to the non-root list exactly on counter==tracing_counter, else to the root list (roles propagated from __collect: "
                  "the non-root list is the one handed to deallocate_list); CcBox::trace's arms have exactly the guards and effects of the protocol table")
    col = anchor(F, "__collect")
    S = Super(P, col, opaque=DO - {"__collect", "trace_counting", "__trace_counting", "trace_roots", "__trace_roots"})
    dl = S.calls_to("deallocate_list")
    L_nr = strip(S.args_of(dl[0])[0]) if dl else None
    tr_roots = [n for n in S.nodes if n.ci is not None and n.inlined and n.ci["k"] == "call" and n.ci["npath"] == "trace_roots"]
    L_r = None
    Q = None
    if tr_roots:
        a = [strip(S.resolve_op(tr_roots[0].ctx, x)) for x in tr_roots[0].term["args"]]
        L_r, Q = a[0], a[2]
        R.inst("R1.3", "roles", L_nr is not None and a[1] == L_nr and L_r != L_nr, "trace_roots(root=%s, non_root=%s, queue=%s); deallocate_list(%s)" % (fmt(a[0]), fmt(a[1]), fmt(a[2]), fmt(L_nr)), where=tr_roots[0].where(), cfg=cfg)
    else:
        R.inst("R1.3", "roles", False, "trace_roots call not found in __collect", cfg=cfg)
    adds = [n for n in S.calls_to(LL + "add") if n.ctx.fn.npath == "__trace_counting"]
    seen_roles = set()
    for n in adds:
        tgt = strip(S.args_of(n)[0])
        obj = obj_of(S.args_of(n)[1])
        lits = S.literals_at(n, exclude=("ui", "u"))
        eq_t = has_cmp_getters(lits, CM + "counter", CM + "tracing_counter", "Eq", True, obj)
        eq_f = has_cmp_getters(lits, CM + "counter", CM + "tracing_counter", "Eq", False, obj)
        role = "non_root" if tgt == L_nr else ("root" if tgt == L_r else "unknown")
        seen_roles.add(role)
        ok = (role == "non_root" and eq_t) or (role == "root" and eq_f)
        R.inst("R1.3", "classify:%s" % role, ok, "popped object is added to the %s list (%s) under %s; required: non-root iff counter==tracing_counter" % (role, fmt(tgt), lits_str(lits)), where=n.where(), cfg=cfg)
    R.floor("R1.3/classify", cfg, 2, len(adds))
    R.inst("R1.3", "classify-both-roles", seen_roles == {"non_root", "root"}, "roles of the two add sites in __trace_counting: %s" % sorted(seen_roles), cfg=cfg)
    # Context construction: field names <-> roles
    for n in S.nodes:
        if n.ctx.fn.npath != "__trace_counting":
            continue
        for s in n.stmts:
            if s["k"] == "assign" and s["rv"]["k"] == "agg" and s["rv"].get("variant") == "Counting":
                vals = {fn_: strip(S.resolve_op(n.ctx, o)) for fn_, o in zip(s["rv"]["fields"], s["rv"]["ops"])}
                ok = vals.get("root_list") == L_r and vals.get("non_root_list") == L_nr and vals.get("queue") == Q
                R.inst("R1.3", "context-roles:Counting", ok, "ContextInner::Counting{root_list: %s, non_root_list: %s, queue: %s} vs roles root=%s non_root=%s queue=%s" % (fmt(vals.get("root_list")), fmt(vals.get("non_root_list")), fmt(vals.get("queue")), fmt(L_r), fmt(L_nr), fmt(Q)), where=n.where(), cfg=cfg)
    for n in S.nodes:
        if n.ctx.fn.npath != "__trace_roots":
            continue
        for s in n.stmts:
            if s["k"] == "assign" and s["rv"]["k"] == "agg" and s["rv"].get("variant") == "RootTracing":
                vals = {fn_: strip(S.resolve_op(n.ctx, o)) for fn_, o in zip(s["rv"]["fields"], s["rv"]["ops"])}
                # inside trace_roots the queue/root list are moved-in values: compare through the call arguments
                ok = vals.get("non_root_list") == L_nr and vals.get("queue") == Q
                R.inst("R1.3", "context-roles:RootTracing", ok, "ContextInner::RootTracing{non_root_list: %s, queue: %s} vs roles non_root=%s queue=%s" % (fmt(vals.get("non_root_list")), fmt(vals.get("queue")), fmt(L_nr), fmt(Q)), where=n.where(), cfg=cfg)
    # single construction site per variant
    for variant in ("Counting", "RootTracing"):
        k = 0
        for f in F.fns.values():
            for b in f.blocks:
                for s in b["stmts"]:
                    if s["k"] == "assign" and s["rv"]["k"] == "agg" and s["rv"].get("variant") == variant and s["rv"].get("adt", "").endswith("ContextInner"):
                        k += 1
        R.inst("R1.3", "single-construction:%s" % variant, k == 1, "ContextInner::%s is constructed at %d site(s) (must be exactly 1 for the field-name/role link)" % (variant, k), cfg=cfg, nontrivial=False)

    check_ccbox_trace(R, F, P, cfg)

    # ---- R1.4 pipeline order -------------------------------------------------------------------------
    R.doc("R1.4", "in __collect: trace_counting dominates trace_roots dominates the finalization pass dominates deallocate_list(non-root list)")
    S4 = Super(P, col, opaque=DO - {"__collect"})
    tc = S4.calls_to("trace_counting")
    trr = S4.calls_to("trace_roots")
    dls = S4.calls_to("deallocate_list")
    ok = bool(tc and trr and dls) and all(S4.dominates(tc[0], t) for t in trr) and all(S4.dominates(trr[0], d) for d in dls)
    R.inst("R1.4", "pipeline", ok, "trace_counting(%d) < trace_roots(%d) < deallocate_list(%d) by dominance" % (len(tc), len(trr), len(dls)), where=col.span, cfg=cfg)
    if fin:
        fi = S4.calls_to(CCBOX0 + "finalize_inner")
        ok = bool(fi) and all(S4.dominates(trr[0], x) for x in fi) and all(not S4.dominates(d, x) for d in dls for x in fi)
        R.inst("R1.4", "finalize-after-tracing", ok, "finalize_inner sites (%d) are dominated by trace_roots" % len(fi), cfg=cfg)

    # ---- R1.5 traversal completeness ---------------------------------------------------------------------
    R.doc("R1.5", "trace_roots and trace_counting loop on remove_first()/poll() of their lists until None and hand every popped pointer to __trace_roots/__trace_counting with the same lists")
    for (fname, pops, inner) in (("trace_roots", [(LL + "remove_first", "root list"), (LQ + "poll", "queue")], "__trace_roots"),
                                 ("trace_counting", [(PC + "remove_first", "buffer"), (LQ + "poll", "queue")], "__trace_counting")):
        f = anchor(F, fname)
        S5 = Super(P, f, opaque=DO - {fname})
        for (pop, what) in pops:
            pn = [x for x in S5.calls_to(pop) if x.ctx is S5.root_ctx and not x.is_cleanup]
            ok = bool(pn) and all(on_cycle(S5, x, exclude=("ui", "u")) for x in pn)
            # every return dominated by the None exit of this pop
            exits_ok = True
            for r in S5.returns:
                lits = S5.literals_at(r, exclude=("ui", "u"))
                if not any(a[0] == "discr" and t in (("is", 0), ("not", 1)) and strip(a[1])[0] == "ret" and strip(a[1])[1] == pop for a, t in lits):
                    exits_ok = False
            # the popped element goes to the inner function inside the loop
            inner_ok = True
            for x in pn:
                calls = [y for y in S5.calls_to(inner) if _popped_from(S5.args_of(y)[0], pop)]
                if not calls or not cycle_must_pass(S5, x, lambda y: y in calls):
                    inner_ok = False
            R.inst("R1.5", "drain:%s:%s" % (fname, what), ok and exits_ok and inner_ok,
                   "%s: %s in a loop=%s; every return behind its None exit=%s; each popped pointer passed to %s in the loop body=%s" % (fname, short(pop), ok, exits_ok, inner, inner_ok), where=f.span, cfg=cfg)
        # same list arguments at every inner call
        argsets = {tuple(fmt(strip(a)) for a in S5.args_of(y)[1:]) for y in S5.calls_to(inner)}
        R.inst("R1.5", "same-lists:%s" % fname, len(argsets) == 1, "list arguments of the %s calls: %s" % (inner, sorted(argsets)), where=f.span, cfg=cfg)

    # ---- R1.6 reset on (re)entry --------------------------------------------------------------------------
    R.doc("R1.6", "each transition into the buffer or the queue resets the tracing counter of the object before it can be incremented/read")
    atl = anchor(F, "cc::add_to_list")
    S6 = Super(P, atl, opaque=DO - {atl.npath})
    marks = [n for n in S6.calls_to(CM + "mark") if mark_of(S6.args_of(n)[1]) == "PossibleCycles"]
    for m in marks:
        o = obj_of(S6.args_of(m)[0])
        rs = [x for x in S6.calls_to(CM + "reset_tracing_counter") if obj_of(S6.args_of(x)[0]) == o and S6.dominates(x, m, exclude=("ui", "u"))]
        ad = [x for x in S6.calls_to(PC + "add") if obj_of(S6.args_of(x)[1]) == o and S6.dominates(x, m, exclude=("ui", "u"))]
        lits = S6.literals_at(m, exclude=("ui", "u"))
        ok = bool(rs) and bool(ad) and has_lit(lits, CM + "is_in_possible_cycles", False, o)
        R.inst("R1.6", "add_to_list", ok, "mark(PossibleCycles) in add_to_list: dominated by reset_tracing_counter=%s, by pc.add=%s, under %s" % (bool(rs), bool(ad), lits_str(lits)), where=m.where(), cfg=cfg)
    R.floor("R1.6/add_to_list", cfg, 1, len(marks))
    if fin:
        ms = anchor(F, PC + "mark_self_and_append")
        S6b = Super(P, ms, opaque=DO - {ms.npath})

        def reset_and_mark(x):
            return is_call(x, CM + "reset_tracing_counter")
        heads = applied_to_every_element(S6b, reset_and_mark)
        mk = S6b.calls_to(CM + "mark")
        rst = S6b.calls_to(CM + "reset_tracing_counter")
        ok = bool(heads) and bool(mk) and bool(rst) and all(obj_of(S6b.args_of(a)[0]) == obj_of(S6b.args_of(b)[0]) for a in mk for b in rst)
        R.inst("R1.6", "mark_self_and_append", ok, "mark_self_and_append iterates the list resetting the tracing counter (%d) and marking (%d) the same element on every iteration: %s" % (len(rst), len(mk), bool(heads)), where=ms.span, cfg=cfg)

    # ---- R1.7 idle invariant for the tracing counter ----------------------------------------------------------
    c07.check_idle_tc(R, F, P, cfg, "R1.7")

    # ---- R1.8 who may count ---------------------------------------------------------------------------------------
    R.doc("R1.8", "increment_tracing_counter is called only by CcBox::trace, and CcBox::trace only by <Cc<T> as Trace>::trace: only a traced Cc can make an object look internal")
    own = owners_of_calls(P, lambda ci: ci["npath"] == CM + "increment_tracing_counter")
    R.inst("R1.8", "who-counts", set(own) == {CCBOX0 + "trace"}, "increment_tracing_counter called from %s" % sorted(own), cfg=cfg)
    own = owners_of_calls(P, lambda ci: ci["npath"] == CCBOX0 + "trace")
    R.inst("R1.8", "who-traces", set(own) == {"<cc::Cc<T> as trace::Trace>::trace"}, "CcBox::trace called from %s" % sorted(own), cfg=cfg)
    own = owners_of_calls(P, lambda ci: ci["npath"] in (CM + "reset_tracing_counter", CM + "_decrement_tracing_counter"))
    okset = {CCBOX0 + "trace", "cc::add_to_list", PC + "mark_self_and_append", "trace_counting"}
    R.inst("R1.8", "who-resets", set(own) <= okset, "tracing counter reset/decrement called from %s (allowed %s)" % (sorted(own), sorted(okset)), cfg=cfg)

    # ---- R1.9 pointer construction <-> count ----------------------------------------------------------------------
    R.doc("R1.9", "every Cc aggregate built from an existing box is dominated by the Ok edge of increment_counter on that box (fresh boxes come from CcBox::new with count 1)")
    k9 = 0
    for f in F.fns.values():
        for bi, b in enumerate(f.blocks):
            for s in b["stmts"]:
                if s["k"] == "assign" and s["rv"]["k"] == "agg" and s["rv"].get("adt") == "cc::Cc":
                    k9 += 1
                    rootf = root_of(P, f)
                    S9 = Super(P, rootf, opaque=DO - {rootf.npath})
                    nodes = [x for x in S9.nodes if x.ctx.fn is f and x.bb == bi]
                    for x in nodes:
                        inner = strip(S9.resolve_op(x.ctx, s["rv"]["ops"][0]))
                        if rootf.npath == "cc::Cc::<T>::__new_internal":
                            # checked at its callers below
                            R.inst("R1.9", "cc-aggregate:%s" % rootf.npath, True, "constructor helper; callers checked", where=x.where(), cfg=cfg, nontrivial=False)
                            continue
                        if isinstance(inner, tuple) and inner and inner[0] == "ret" and inner[1] == CCBOX + "new":
                            R.inst("R1.9", "cc-aggregate:%s" % rootf.npath, True, "Cc built from a fresh CcBox::new (count 1)", where=x.where(), cfg=cfg)
                            continue
                        lits = S9.literals_at(x, exclude=("ui", "u"))
                        ok = _inc_ok_literal(lits, obj_of(inner))
                        R.inst("R1.9", "cc-aggregate:%s" % rootf.npath, ok, "Cc{inner: %s} built under %s; required: increment_counter(..).is_err()==false on that box" % (fmt(inner), lits_str(lits)), where=x.where(), cfg=cfg)
    for (f, bb, ci) in P.callers(F.fn("cc::Cc::<T>::__new_internal").id) if F.fn("cc::Cc::<T>::__new_internal") else []:
        rootf = root_of(P, f)
        S9 = Super(P, rootf, opaque=DO - {rootf.npath})
        for x in S9.calls_to("cc::Cc::<T>::__new_internal") + [y for y in S9.nodes if y.inlined and y.ci and y.ci["k"] == "call" and y.ci["npath"] == "cc::Cc::<T>::__new_internal"]:
            k9 += 1
            inner = obj_of(S9.resolve_op(x.ctx, x.term["args"][0]))
            lits = S9.literals_at(x, exclude=("ui", "u"))
            ok = _inc_ok_literal(lits, inner)
            if not ok and rootf.npath.endswith("new_cyclic"):
                # increment from 0 whose result is ignored: allow-listed (count is 0, cannot overflow); require the increment to dominate
                incs = [y for y in S9.calls_to(CM + "increment_counter") if obj_of(S9.args_of(y)[0]) == inner and S9.dominates(y, x, exclude=("ui", "u"))]
                ok = bool(incs)
                R.inst("R1.9", "new_internal:%s" % rootf.npath, ok, "new_cyclic: Cc built after increment_counter from 0 on the same box (result ignored: cannot overflow from 0) - dominated=%s" % ok, where=x.where(), cfg=cfg)
                continue
            R.inst("R1.9", "new_internal:%s" % rootf.npath, ok, "__new_internal(%s) under %s; required Ok edge of increment_counter on that box" % (fmt(inner), lits_str(lits)), where=x.where(), cfg=cfg)
    R.floor("R1.9", cfg, 2 + (2 if weak else 0), k9)

    # ---- R1.10 remove_from_list ------------------------------------------------------------------------------------
    R.doc("R1.10", "remove_from_list unlinks only under is_in_possible_cycles()==true, marking NonMarked first")
    rfl = anchor(F, "cc::remove_from_list")
    S10 = Super(P, rfl, opaque=DO - {rfl.npath})
    rm = S10.calls_to(PC + "remove")
    for x in rm:
        o = obj_of(S10.args_of(x)[1])
        lits = S10.literals_at(x, exclude=("ui", "u"))
        mk = [m for m in S10.calls_to(CM + "mark") if mark_of(S10.args_of(m)[1]) == "NonMarked" and obj_of(S10.args_of(m)[0]) == o and S10.dominates(m, x, exclude=("ui", "u"))]
        ok = has_lit(lits, CM + "is_in_possible_cycles", True, o) and bool(mk)
        R.inst("R1.10", "remove_from_list", ok, "pc.remove(ptr) under %s, preceded by mark(NonMarked)=%s" % (lits_str(lits), bool(mk)), where=x.where(), cfg=cfg)
    R.floor("R1.10", cfg, 1, len(rm))


def _popped_from(e, pop):
    e = strip(e)
    # (ret as Some).0
    if isinstance(e, tuple) and e and e[0] == "field":
        b = e[1]
        if isinstance(b, tuple) and b and b[0] == "as":
            r = strip(b[1])
            return isinstance(r, tuple) and r and r[0] == "ret" and r[1] == pop
    return False


def _inc_ok_literal(lits, obj):
    """increment_counter(obj).is_err() == false dominates."""
    for a, t in lits:
        if a[0] == "bool":
            e = strip(a[1])
            if isinstance(e, tuple) and e and e[0] == "call" and e[1].endswith("Result::<T, E>::is_err") and t is False or \
               isinstance(e, tuple) and e and e[0] == "call" and e[1].endswith("Result::<T, E>::is_ok") and t is True:
                inner = strip(e[2][0])
                if isinstance(inner, tuple) and inner and inner[0] == "ret" and inner[1] in (CM + "increment_counter",) and obj_of(inner[2][0]) == obj:
                    return True
    return False


def check_ccbox_trace(R, F, P, cfg):
    """Protocol table of CcBox::trace (DESIGN section 3)."""
    tr = anchor(F, CCBOX0 + "trace")
    S = Super(P, tr, opaque=default_opaque(F) - {tr.npath})
    paths = tables.normal_paths(S, limit=20000)
    obj = ("param", "ptr", 1)
    n = 0
    for p in paths:
        lits = set(p.literals)
        variant = None
        for a, t in lits:
            if a[0] == "discr" and isinstance(t, tuple) and t[0] == "is":
                variant = {0: "Counting", 1: "RootTracing"}.get(t[1])
        muts = [x for x in p.events if x.ci["k"] == "call" and x.ci["npath"] in MUTATORS]
        seq = []
        for x in muts:
            a = S.args_of(x)
            nm = short(x.ci["npath"])
            if x.ci["npath"] == CM + "mark":
                nm += "(%s)" % mark_of(a[1])
            elif x.ci["npath"].startswith((LL, LQ)):
                t = strip(a[0])
                role = t[2] if isinstance(t, tuple) and t and t[0] == "field" else fmt(t)
                nm += "[%s]" % role
                if len(a) > 1 and obj_of(a[1]) != obj:
                    nm += "<other object>"
            if x.ci["npath"].startswith(CM) and obj_of(a[0]) != obj:
                nm += "<other object>"
            seq.append(nm)
        seq = tuple(seq)
        inlq = _lit(lits, CM + "is_in_list_or_queue")
        inpc = _lit(lits, CM + "is_in_possible_cycles")
        inl = _lit(lits, CM + "is_in_list")
        eq = None
        for a, t in lits:
            if a[0] == "cmp" and a[1] == "Eq" and {(getter_of(a[2])[0]), (getter_of(a[3])[0])} == {CM + "counter", CM + "tracing_counter"}:
                eq = t
        row = (variant, inlq, inpc, inl, eq)
        expected = expected_effects(row)
        n += 1
        R.inst("R1.3", "ccbox-trace:%s" % (row,), expected is not None and seq == expected,
               "CcBox::trace path %s (variant, in_list_or_queue, in_possible_cycles, in_list, counter==tc) performs %s; protocol table expects %s" % (row, list(seq), list(expected) if expected is not None else "no such row"),
               where=tr.span, cfg=cfg)
    R.floor("R1.3/ccbox-trace", cfg, 7, n)


def _lit(lits, getter):
    for a, t in lits:
        if a[0] == "bool":
            g, o = getter_of(a[1])
            if g == getter:
                return t
    return None


def expected_effects(row):
    variant, inlq, inpc, inl, eq = row
    INC = "CM::increment_tracing_counter"
    if variant == "Counting":
        if inlq is True:
            if inl is True and eq is True:
                return (INC, "LinkedList::remove[root_list]", "LinkedList::add[non_root_list]")
            if inl is False and eq is None:
                return (INC,)
            if inl is True and eq is False:
                return (INC,)
            return None
        if inlq is False:
            if inpc is True:
                return (INC,)
            if inpc is False:
                return ("CM::reset_tracing_counter", INC, "LinkedQueue::add[queue]", "CM::mark(InQueue)")
        return None
    if variant == "RootTracing":
        if inl is True and eq is True:
            return ("CM::mark(NonMarked)", "LinkedList::remove[non_root_list]", "LinkedQueue::add[queue]", "CM::mark(InQueue)")
        if inl is False and eq is None:
            return ()
        if inl is True and eq is False:
            return ()
        return None
    return None
