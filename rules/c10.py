"""C10 - Cleaning actions run at most once, exactly once by the time the Cleaner is gone."""
from engine.graph import Super, fmt, strip, U_KINDS
from engine import tables, graph
from .common import *

LEVEL = "other"
EXPLANATION = ("Structural necessary conditions on the MIR facts (cleaners configurations): (R10.1) the only call of a boxed cleaning action is in CleaningAction::drop, on the Some edge of "
               "Option::take on its own slot (take-then-call: at most once under re-entry or panic); (R10.2) Cleanable holds only a Weak to the map, has no Drop impl, and clean() "
               "does upgrade -> try_borrow_mut -> remove(self.key) and nothing else; (R10.3) Cleaner, CleanerMap and Cleanable have empty trace bodies, so the map is an untraced "
               "owning Cc and an action can never observe its owner mid-drop; (R10.4) the Cc<CleanerMap> is never cloned inside the crate, so dropping the Cleaner takes the "
               "reference-count path of C04/R4.2 and drops the map with every remaining action; (R10.5 = R-INTERIOR-MUT) no `&mut` obtained through UnsafeCell::get is live across a "
               "call that can reach user code (re-entrant register would otherwise see/replace a half-updated slot). Trusted: SlotMap drops each stored value exactly once.")


def check(R, F, P, cfg):
    if not F.has("cleaners"):
        R.inst("R10.0", "no-cleaners", True, "configuration without cleaners", cfg=cfg, nontrivial=False)
        return
    DO = default_opaque(F)

    # ---- R10.1 ----------------------------------------------------------------------------------------------
    R.doc("R10.1", "ACTION call sites are exactly one, inside CleaningAction::drop, guarded by the Some edge of Option::take on self's slot")
    act = [(f, bb) for (f, bb, k, ci) in P.usites if k == "ACTION"]
    R.inst("R10.1", "single-action-site", len(act) == 1 and act[0][0].npath == "<cleaners::CleaningAction as std::ops::Drop>::drop", "boxed-action call sites: %s" % [a[0].npath for a in act], cfg=cfg)
    cd = anchor(F, "<cleaners::CleaningAction as std::ops::Drop>::drop")
    S = Super(P, cd, opaque=DO)
    for n in S.usite_nodes(("ACTION",)):
        lits = S.literals_at(n, exclude=("ui", "u"))
        ok = False
        for a, t in lits:
            if a[0] == "discr" and t in (("is", 1), ("not", 0)):
                e = strip(a[1])
                if isinstance(e, tuple) and e[0] in ("call", "ret") and e[1] == "std::option::Option::<T>::take" and "self" in fmt(e[2][0]):
                    # the callee called is the taken value
                    callee = S.args_of(n)[0]
                    ok = "take(" in fmt(callee)
        R.inst("R10.1", "take-then-call", ok, "the action call is guarded by %s and calls the value taken out of the slot: %s" % (lits_str(lits), ok), where=n.where(), cfg=cfg)
    adt = adt_of_type(F, "cleaners::CleaningAction")
    ok = adt is not None and len(adt["variants"][0]["fields"]) == 1 and adt["variants"][0]["fields"][0]["ty"].startswith("std::option::Option<std::boxed::Box<")
    R.inst("R10.1", "action-slot-type", ok, "CleaningAction wraps Option<Box<dyn FnOnce()>>: %s" % (adt and adt["variants"][0]["fields"][0]["ty"]), cfg=cfg, nontrivial=False)

    # ---- R10.2 ----------------------------------------------------------------------------------------------------
    R.doc("R10.2", "Cleanable = (Weak<CleanerMap>, key) without Drop impl; clean(): upgrade, try_borrow_mut, remove(self.key) - no other effect")
    cl = adt_of_type(F, "cleaners::Cleanable")
    ftys = [fl["ty"] for fl in cl["variants"][0]["fields"]]
    ok = cl["destructor"] is None and any(t.startswith("weak::Weak<cleaners::CleanerMap>") for t in ftys) and not any(t.startswith("cc::Cc<") for t in ftys)
    R.inst("R10.2", "cleanable-type", ok, "Cleanable fields %s, own Drop impl: %s" % (ftys, cl["destructor"]), where=cl["span"], cfg=cfg)
    cf = anchor(F, "cleaners::Cleanable::clean")
    S = Super(P, cf, opaque=DO)
    bad = []
    k_rm = 0
    for p in tables.normal_paths(S):
        eff = [x for x in effect_calls(p.events)]
        names = [x.ci["npath"] for x in eff]
        allowed = {"weak::Weak::<T>::upgrade", "<cc::Cc<T> as std::ops::Deref>::deref", "<cc::Cc<T> as std::ops::Drop>::drop"}
        extra = [nm for nm in names if nm not in allowed]
        rms = [x for x in p.events if x.ci["k"] == "call" and x.ci["npath"].startswith("slotmap::SlotMap::<K, V>::remove")]
        std_ok = ("std::cell::RefCell::<T>::try_borrow_mut", "std::ops::DerefMut::deref_mut", "std::ops::Deref::deref", "slotmap::SlotMap::<K, V>::remove", "std::mem::drop")
        foreign = [x.ci["npath"] for x in p.events if x.ci["k"] == "call" and x.ci["kind"] == "std" and not x.ci["npath"].startswith(std_ok) and x.ci["npath"] not in graph.TRANSPARENT and not x.ci.get("exp")]
        if foreign:
            bad.append("other library calls %s" % foreign)
        if extra:
            bad.append("extra effects %s" % extra)
        upgraded = any(a[0] == "discr" and t in (("is", 1), ("not", 0)) and "upgrade" in fmt(a[1]) for a, t in p.literals)
        borrowed = any(a[0] == "discr" and "try_borrow_mut" in fmt(a[1]) and t in (("is", 0), ("not", 1)) for a, t in p.literals)
        if upgraded and borrowed:
            k_rm += 1
            if len(rms) != 1 or not fmt(S.args_of(rms[0])[1]).endswith("self.key") or "try_borrow_mut" not in fmt(S.args_of(rms[0])[0]):
                bad.append("upgrade+borrow path removes %s" % [fmt(a) for x in rms for a in S.args_of(x)])
        elif rms:
            bad.append("remove without upgrade/borrow")
    R.inst("R10.2", "clean-shape", not bad and k_rm == 1, "clean(): one path removes self.key from the upgraded map, the others do nothing: %s" % (bad or "yes"), where=cf.span, cfg=cfg)

    # ---- R10.3 ------------------------------------------------------------------------------------------------------
    R.doc("R10.3", "Trace::trace bodies of Cleaner, CleanerMap, Cleanable contain no call")
    for ty in ("cleaners::Cleaner", "cleaners::CleanerMap", "cleaners::Cleanable"):
        f = anchor(F, "<%s as trace::Trace>::trace" % ty)
        calls = [b["term"] for b in f.blocks if b["term"]["k"] in ("call", "drop")]
        R.inst("R10.3", "empty-trace:%s" % ty, not calls, "%s::trace has %d call/drop terminators" % (ty, len(calls)), where=f.span, cfg=cfg)

    # ---- R10.4 -------------------------------------------------------------------------------------------------------
    R.doc("R10.4", "no Clone::clone on a Cc<CleanerMap> in the crate; the only owning field of that type is Cleaner.cleaner_map")
    clones = P.call_sites(lambda c: (c["npath"].endswith("Clone::clone") or c["npath"].endswith("Clone>::clone")) and any("CleanerMap" in s for s in c["term"]["callee"].get("substs", [])) and not any(s.startswith("weak::Weak") for s in c["term"]["callee"].get("substs", [])))
    R.inst("R10.4", "map-never-cloned", not clones, "clones of Cc<CleanerMap>: %s" % ([f.npath for f, _, _ in clones] or "none"), cfg=cfg)
    owners = []
    for a in F.adts.values():
        for v in a["variants"]:
            for fl in v["fields"]:
                if "cc::Cc<cleaners::CleanerMap>" in fl["ty"]:
                    owners.append("%s.%s" % (a["path"], fl["name"]))
    R.inst("R10.4", "single-owner-field", owners == ["cleaners::Cleaner.cleaner_map"], "fields owning a Cc<CleanerMap>: %s" % owners, cfg=cfg)
    cn = adt_of_type(F, "cleaners::Cleaner")
    R.inst("R10.4", "cleaner-no-drop-impl", cn["destructor"] is None, "Cleaner has no Drop impl of its own (drop glue drops the map's Cc): %s" % (cn["destructor"] is None), cfg=cfg, nontrivial=False)

    # ---- R10.7 register really registers -----------------------------------------------------------------------------
    R.doc("R10.7", "Cleaner::register inserts CleaningAction(Some(Box::new(action))) into the map of the Cleaner's own slot and returns Cleanable{ Weak = downgrade of that same Cc, key = the key returned by insert }")
    rg = anchor(F, "cleaners::Cleaner::register")
    S = Super(P, rg, opaque=DO - {rg.npath})
    ins = [n for n in S.call_nodes() if n.ci["k"] == "call" and n.ci["npath"].startswith("slotmap::SlotMap::<K, V>::insert")]
    dg = S.calls_to("weak::<impl cc::Cc<T>>::downgrade")
    probs = []
    if len(ins) != 1:
        probs.append("%d insert sites" % len(ins))
    if len(dg) != 1:
        probs.append("%d downgrade sites" % len(dg))
    if not probs:
        a = S.args_of(ins[0])
        val = fmt(a[1])
        if not ("CleaningAction" in val and "Option::Some" in val and "action" in val):
            probs.append("inserted value is %s" % val[:100])
        tgt = fmt(S.expand_rets(a[0]))          # a private accessor for the slot, if any, is looked through
        src = fmt(S.expand_rets(S.args_of(dg[0])[0]))
        if "self.cleaner_map" not in tgt:
            probs.append("inserted into %s, not into the Cleaner's own map" % tgt[:100])
        if "self.cleaner_map" not in src:
            probs.append("the Weak is a downgrade of %s" % src[:80])
        bad_ret = []
        for p_ in tables.normal_paths(S, limit=20000):
            rv = p_.retval()
            if not (isinstance(rv, tuple) and rv[0] == "agg" and rv[2].endswith("cleaners::Cleanable::Cleanable")):
                bad_ret.append(fmt(rv)[:60])
                continue
            vals = dict(zip(rv[4], rv[3]))
            if "downgrade" not in fmt(vals.get("cleaner_map")) or "insert" not in fmt(vals.get("key")):
                bad_ret.append("Cleanable{%s, %s}" % (fmt(vals.get("cleaner_map"))[:50], fmt(vals.get("key"))[:50]))
            if not p_.calls(ins[0].ci["npath"]) and ins[0] not in p_.events:
                bad_ret.append("a path returns without inserting")
        if bad_ret:
            probs.append("returns %s" % bad_ret[:2])
    R.inst("R10.7", "register-shape", not probs, "register: %s" % (probs or "inserts the boxed action into its own map and returns (downgrade(map), key)"), where=rg.span, cfg=cfg)

    # ---- R10.6 the slot holding the map is never overwritten while it holds one -------------------------------------------
    R.doc("R10.6", "a Drop of the Cleaner's map slot (an assignment to it drops the old value, and with it every registered action) outside the Cleaner's own drop glue is provably a no-op (slot is None)")
    k = 0
    for f in F.fns.values():
        if not f.npath.startswith("cleaners::") or f.kind == "closure":
            continue
        S = Super(P, f, opaque=DO - {f.npath})
        for n in S.nodes:
            if n.ci is None or n.ci["k"] != "drop" or "CleanerMap" not in n.ci["ty"] or n.is_cleanup:
                continue
            pl = fmt(strip(S.resolve_place(n.ctx, n.term["place"])))
            if "cleaner_map" not in pl or "upgrade(" in pl:
                continue    # a local temporary or a transient upgraded owner (e.g. a freshly built, still empty map), not the slot
            k += 1
            R.inst("R10.6", "slot-overwrite:%s" % f.npath, _drops_nothing(S, n), "%s drops the value stored in the slot %s (type %s): %s" % (f.npath, pl, n.ci["ty"], "provably None at that point" if _drops_nothing(S, n) else "it may hold the map, whose actions would then run although the Cleaner is alive and clean() was not called"), where=n.where(), cfg=cfg)
    R.inst("R10.6", "slot-overwrite-sites", True, "%d drops of the map slot outside drop glue examined" % k, cfg=cfg, nontrivial=False)

    # ---- R10.5 R-INTERIOR-MUT ---------------------------------------------------------------------------------------------
    check_interior_mut(R, F, P, cfg, "R10.5")


def check_interior_mut(R, F, P, cfg, rule):
    R.doc(rule, "R-INTERIOR-MUT: a `&mut` created by dereferencing the raw pointer returned by UnsafeCell::get (or anything derived from it) is not used at or after a call that can reach user code")
    k = 0
    for f in F.fns.values():
        if f.kind == "closure":
            continue
        # (block, stmt) creating `&mut *p` with p = UnsafeCell::get(..)
        get_locals = set()
        for b in f.blocks:
            t = b["term"]
            if t["k"] == "call" and not t["callee"].get("indirect") and t["callee"]["path"].endswith("UnsafeCell::<T>::get") and not t["dest"]["p"]:
                get_locals.add(t["dest"]["l"])
        if not get_locals:
            continue
        creators = []
        for bi, b in enumerate(f.blocks):
            for si, s in enumerate(b["stmts"]):
                if s["k"] == "assign" and s["rv"]["k"] == "ref" and s["rv"]["mut"] and s["rv"]["place"]["l"] in get_locals and "*" in s["rv"]["place"]["p"] and not s["place"]["p"]:
                    if "debug_assert" in ">".join(s.get("exp", [])):
                        continue
                    creators.append((bi, si, s["place"]["l"]))
        if not creators:
            continue
        S = Super(P, f, opaque=default_opaque(F) - {f.npath})
        for (bi, si, loc) in creators:
            k += 1
            derived = _derived_locals(f, loc)
            defn = S.blocks_of.get((S.root_ctx.id, bi))
            if defn is None:
                continue
            after_def = S.reachable(defn, exclude=("ui", "u"))
            offenders = []
            for U in S.mayU_nodes():
                if U.idx not in after_def or U.is_cleanup:
                    continue
                if _drops_nothing(S, U):
                    continue
                # does the reference (or something derived) get used at U or later?
                uses_here = U.ctx is S.root_ctx and _node_uses(U, derived, include_term=True)
                later = False
                for i in S.reachable(U, exclude=("ui", "u")):
                    x = S.nodes[i]
                    if x is U or x.ctx is not S.root_ctx:
                        continue
                    if _node_uses(x, derived, include_term=True):
                        later = True
                        break
                if uses_here or later:
                    offenders.append(U)
            R.inst(rule, "interior-mut:%s" % f.npath, not offenders,
                   "`&mut` to the contents of an UnsafeCell created at %s bb%d is %s" % (f.npath, bi, "not live across any call that can reach user code" if not offenders else
                   "still used at/after %s which can reach user code (%s): user code re-entering this method sees or replaces the half-updated slot, and two `&mut` to it coexist" % (
                       [short(u.ci.get("npath", u.ci.get("ty", "?"))) for u in offenders[:3]], sorted(set().union(*[P.site_mayU(u.ci) for u in offenders])))),
                   where="%s bb%d" % (f.npath, bi), cfg=cfg)
    R.inst(rule, "interior-mut-sites", True, "%d `&mut *UnsafeCell::get()` creation sites examined" % k, cfg=cfg, nontrivial=False)


def _derived_locals(f, loc):
    """Locals holding the reference or a reborrow/copy derived from it (transitive, flow-insensitive)."""
    d = {loc}
    changed = True
    while changed:
        changed = False
        for b in f.blocks:
            for s in b["stmts"]:
                if s["k"] != "assign" or s["place"]["p"]:
                    continue
                tgt = s["place"]["l"]
                if tgt in d:
                    continue
                rv = s["rv"]
                src = None
                if rv["k"] in ("ref", "rawptr"):
                    src = rv["place"]["l"]
                elif rv["k"] == "use" and rv["op"]["k"] in ("copy", "move"):
                    src = rv["op"]["place"]["l"]
                elif rv["k"] == "cast" and rv["op"]["k"] in ("copy", "move"):
                    src = rv["op"]["place"]["l"]
                if src in d:
                    d.add(tgt)
                    changed = True
            t = b["term"]
            if t["k"] == "call" and not t["dest"]["p"] and t["dest"]["l"] not in d:
                # a call returning a reference derived from a `&mut` argument (get_or_insert_with, as_mut, ...)
                if any(a["k"] in ("copy", "move") and a["place"]["l"] in d for a in t["args"]) and f.locals[t["dest"]["l"]]["ty"].startswith("&"):
                    d.add(t["dest"]["l"])
                    changed = True
    return d


def _node_uses(n, locals_, include_term=True):
    for s in n.stmts:
        if s["k"] == "assign":
            for pl in places_of_rv(s["rv"]):
                if pl["l"] in locals_:
                    return True
            if s["place"]["l"] in locals_ and s["place"]["p"]:
                return True
    if include_term:
        t = n.term
        if t["k"] == "call":
            for a in t["args"]:
                if a["k"] in ("copy", "move") and a["place"]["l"] in locals_:
                    return True
        if t["k"] == "drop" and t["place"]["l"] in locals_:
            return True
    return False


def _drops_nothing(S, U):
    """A Drop terminator on an Option place that is None on every path (literal is_none == true / discriminant None)."""
    if U.ci["k"] != "drop":
        return False
    pl = strip(S.resolve_place(U.ctx, U.term["place"]))
    from engine.graph import fresh_literals_at
    for a, t in fresh_literals_at(S, U, exclude=("ui", "u")):
        if a[0] == "bool" and t is True:
            e = strip(a[1])
            if isinstance(e, tuple) and e[0] == "call" and e[1] == "std::option::Option::<T>::is_none" and strip(e[2][0]) == pl:
                return True
        if a[0] == "discr" and t in (("is", 0), ("not", 1)) and strip(a[1]) == pl:
            return True
    return False
