"""C07 - Panics from user callbacks are contained at every crash point."""
from engine.graph import Super, fmt, strip, U_KINDS, _mentions
from engine.flags import FlagRun
from engine import tables
from .common import *
from . import c12

LEVEL = "other"
EXPLANATION = ("Exhaustive over crash points, statically: every call/drop in the crate that can reach a user callback (Trace::trace, Finalize::finalize, a payload "
               "destructor, a cleaning action, the new_cyclic closure) is enumerated from the MIR facts together with its unwind path up to the public entry point, "
               "and the rules check what each cleanup path restores: (R7.1) phase flags equal their entry value at every return and unwind exit of every entry "
               "point, for every entry state of the re-entrancy fixpoint; (R7.2) an object marked in-queue/in-list but not yet inside a container is un-marked on "
               "the unwind path of every callback made meanwhile, and each container's destructor drains it through its un-marking pop; (R7.3) every "
               "mem::forget/ManuallyDrop::new of a value whose type has a crate destructor satisfies the discharge condition of its kind; (R7.4) the list "
               "live across the destructor pass marks its remaining members dropped on unwind; (R7.5) new_cyclic's closure call is covered by a guard that frees "
               "without dropping the payload; (R7.6) cleanup destructors cannot themselves reach user code and catch_unwind is never used; (R7.7) no buffered "
               "object is left with a non-zero tracing counter by an unwound collection (R-IDLE-TC), and no uninitialised wrapper is droppable while user "
               "code can panic (R-UNINIT-DROP). Decides the idle invariant after each single fault; does not decide the behaviour of arbitrary continuations.")

FORGET = ("std::mem::forget", "std::mem::ManuallyDrop::<T>::new")


def crash_sites(F, P):
    """Every non-expanded call/drop that may reach a user callback, per function (for the evidence)."""
    out = []
    for f in F.fns.values():
        for bb in range(len(f.blocks)):
            ci = P.classify(f, bb)
            if ci and P.site_mayU(ci):
                out.append((f, bb, ci))
    return out


def check(R, F, P, cfg):
    has_fin = F.has("finalization")
    weak = F.has("weak-ptrs")
    opq = flag_opaque(F)

    sites = crash_sites(F, P)
    R.notes["crash_points[%s]" % cfg] = "%d call/drop sites can reach a user callback; %d direct callback sites" % (len(sites), len(P.usites))

    # ---- R7.1 flags restored at every exit -----------------------------------------------
    R.doc("R7.1", "for every public entry point and every entry flag state of the re-entrancy fixpoint, the (collecting, finalizing, dropping) flags at every "
                  "return and at every unwind exit equal the entry state")
    entries = c12.api_entries(F, P)
    E, obs, exits = c12.run_flag_fixpoint(F, P, entries)
    n = 0
    for (fname, e, ex) in exits:
        for kind in ("return", "resume"):
            states = ex[kind]
            if not states:
                continue
            n += 1
            ok = states == {e}
            R.inst("R7.1", "flags-restored:%s:%s" % (fname, kind), ok,
                   "entry %s entered with flags %s leaves by %s with flags %s (must be unchanged)" % (fname, e, kind, sorted(states)), cfg=cfg,
                   nontrivial=(e != (0, 0, 0) or kind == "resume"))
    R.floor("R7.1", cfg, 10, n)

    # ---- R7.2 marks restored ------------------------------------------------------------
    R.doc("R7.2", "between mark(InQueue|InList) on an object and its insertion into a container, every call that may reach user code has on its unwind path a "
                  "mark(NonMarked) on the same object; each container type's destructor drains it through its un-marking pop")
    n_marks = 0
    for f in F.fns.values():
        if f.kind == "closure":
            continue
        if not any(b["term"]["k"] == "call" and b["term"]["callee"].get("path", "").endswith("CounterMarker::mark") for b in f.blocks):
            continue
        if f.npath.startswith((LL, PC, LQ, CM)):
            continue
        S = Super(P, f, opaque=default_opaque(F) - {f.npath})
        for M in S.calls_to(CM + "mark"):
            a = S.args_of(M)
            mk = mark_of(a[1]) if len(a) > 1 else None
            if mk not in ("InQueue", "InList"):
                continue
            obj = obj_of(a[0])
            reach = S.reachable(M, exclude=("ui", "u"))
            for U in S.mayU_nodes():
                if U.idx not in reach or U is M or U.is_cleanup:
                    continue
                # already inside a container on every path M -> U ?  (an `add(obj)` between M and U)
                adds = [x for x in S.calls_to(LL + "add", LQ + "add") if len(S.args_of(x)) > 1 and obj_of(S.args_of(x)[1]) == obj]
                # U reachable from M without passing an add of the object
                r2 = S.reachable(M, exclude=("ui", "u"), stop=lambda x: x in adds)
                if U.idx not in r2 or U in adds:
                    continue
                n_marks += 1

                def unmark(x, obj=obj):
                    if x.ci is None or x.inlined or x.ci["k"] != "call" or x.ci["npath"] != CM + "mark":
                        return False
                    aa = S.args_of(x)
                    return len(aa) > 1 and mark_of(aa[1]) == "NonMarked" and obj_of(aa[0]) == obj
                ok, k = unwind_must_pass(S, U, unmark)
                R.inst("R7.2", "unmark-on-unwind:%s" % f.npath, ok,
                       "object %s is marked %s at %s; the call %s that may reach %s runs before it is inside a container; its unwind path %s a mark(NonMarked) on that object" % (
                           fmt(obj), mk, M.where(), short(U.ci.get("npath", U.ci.get("ty", "?"))), sorted(P.site_mayU(U.ci)), "passes" if ok else "DOES NOT pass"),
                       where=U.where(), cfg=cfg)
    R.floor("R7.2", cfg, 1, n_marks)

    # containers drain through an un-marking pop
    for (tyname, pop) in ((LL[:-2], LL + "remove_first"), (LQ[:-2], LQ + "poll"), (PC[:-2], PC + "remove_first")):
        adt = adt_of_type(F, tyname)
        if adt is None:
            raise AnchorMissing(tyname)
        ok, detail = container_drains(F, P, adt, pop)
        R.inst("R7.2", "container-drop:%s" % tyname, ok, detail, where=adt["span"], cfg=cfg)
        # the pop itself un-marks what it returns
        pf = anchor(F, pop)
        S = Super(P, pf, opaque=default_opaque(F) - {pop})
        ok2 = False
        det = "no path returning Some"
        for p in tables.normal_paths(S):
            rv = p.retval()
            if isinstance(rv, tuple) and rv and rv[0] == "agg" and rv[2].endswith("Option::Some"):
                popped = obj_of(rv[3][0])
                ms = [x for x in p.calls(CM + "mark") if mark_of(S.args_of(x)[1]) == "NonMarked" and obj_of(S.args_of(x)[0]) == popped]
                ok2 = bool(ms)
                det = "path returning Some(%s) %s mark(NonMarked) on it" % (fmt(popped), "executes" if ms else "does NOT execute")
                if not ok2:
                    break
        R.inst("R7.2", "pop-unmarks:%s" % pop, ok2, det, where=pf.span, cfg=cfg)

    # ---- R7.3 forgetting destructors -----------------------------------------------------
    R.doc("R7.3", "every mem::forget / ManuallyDrop::new applied to a type with a crate destructor satisfies the discharge condition of its kind "
                  "(K1 container provably empty; K2 mark guard after insertion; K3 unwind-only guard after its last covered callback; K4 ownership transfer from a closed table)")
    nf = check_forgets(R, F, P, cfg)
    exp_forgets = 6 + (1 if has_fin else 0) + (2 if weak else 0)
    R.floor("R7.3", cfg, 5, nf)

    # ---- R7.4 unwound drop list marks its members dropped ----------------------------------
    dl = anchor(F, "deallocate_list")
    S = Super(P, dl, opaque=default_opaque(F) - {"deallocate_list"})
    if weak:
        R.doc("R7.4", "with weak-ptrs: every call in deallocate_list that may reach a payload destructor has on its unwind path a loop that pops the list and set_dropped(true)s each member")
        k = 0
        for U in S.mayU_nodes(("DROP",)):
            if U.is_cleanup:
                continue
            k += 1

            def setdropped(x):
                if x.ci is None or x.inlined or x.ci["k"] != "call" or x.ci["npath"] != CM + "set_dropped":
                    return False
                aa = S.args_of(x)
                return len(aa) > 1 and aa[1] == ("const", 1) and _mentions(aa[0], ("ret",)) and "remove_first" in fmt(aa[0])
            heads = loop_heads_applying(S, setdropped, exclude=("ui",))
            ok, _ = unwind_must_pass(S, U, lambda x: x in heads)
            R.inst("R7.4", "drop-list-unwind", ok, "destructor pass call %s: unwind path %s a pop-loop with set_dropped(true)" % (short(U.ci.get("npath", "?")), "passes" if ok else "does NOT pass"), where=U.where(), cfg=cfg)
        R.floor("R7.4", cfg, 1, k)

    # ---- R7.5 new_cyclic guard ---------------------------------------------------------------
    if weak:
        R.doc("R7.5", "the closure call in new_cyclic has on its unwind path cc_dealloc of the half-built box (after layout and drop_metadata) and no payload drop")
        nc = anchor(F, "weak::<impl cc::Cc<T>>::new_cyclic")
        S = Super(P, nc, opaque=default_opaque(F) - {nc.npath})
        cl = [x for x in S.usite_nodes(("CLOSURE",))]
        for U in cl:
            box = None

            def dealloc(x):
                return x.ci is not None and not x.inlined and x.ci["k"] == "call" and x.ci["npath"] == "utils::cc_dealloc"
            ok, _ = unwind_must_pass(S, U, dealloc, avoid_labels=("skip",))
            R.assume("thread-local STATE is accessible wherever the crate reads it (R19.3 shows its type needs no destructor, so try_with cannot fail); `skip` edges of try_state are ignored for must-free obligations")
            # no payload drop / callback between the closure's unwind edge and the root resume, except dropping `weak` (Weak::drop is not may-U) and the closure value itself
            bad = []
            reach = unwind_reach(S, U)
            for i in reach:
                x = S.nodes[i]
                if x.ci is not None and not x.inlined and x.ci.get("ukind") in ("DROP", "FINALIZE", "TRACE"):
                    if x.ci["k"] == "drop" and ("F" == x.ci["ty"] or x.ci["ty"].startswith("{closure") or x.ci["ty"] == "F"):
                        continue
                    # dropping the user's closure value `f` is ordinary Rust semantics
                    if x.ci["k"] == "drop" and fmt(S.resolve_place(x.ctx, x.term["place"])) in ("f",):
                        continue
                    bad.append(x.where())
            # ordering inside the guard: layout before drop_metadata before cc_dealloc
            order_ok = True
            for d in [x for x in S.nodes if dealloc(x) and x.idx in reach]:
                lay = [y for y in S.calls_to(CCBOX + "layout") if S.dominates(y, d)]
                dm = [y for y in S.calls_to(CCBOX + "drop_metadata") if S.dominates(y, d)]
                if not lay or not dm or not any(S.dominates(l, m) for l in lay for m in dm):
                    order_ok = False
            R.inst("R7.5", "new_cyclic-closure-unwind", ok and not bad and order_ok,
                   "closure call unwind: cc_dealloc on every path=%s; layout<drop_metadata<cc_dealloc=%s; callbacks on the cleanup path: %s" % (ok, order_ok, bad), where=U.where(), cfg=cfg)
        R.floor("R7.5", cfg, 1, len(cl))

    # ---- R7.6 cleanup destructors are not may-U; no catch_unwind ------------------------------
    R.doc("R7.6", "the guard/container destructors that the cleanup paths rely on cannot reach user code; catch_unwind is never called")
    relied = set()
    for f in F.fns.values():
        if f.impl_of and f.impl_of.get("trait", "") and f.impl_of["trait"].endswith("ops::Drop") and f.npath.endswith("::drop"):
            body_calls = [P.classify(f, bb) for bb in range(len(f.blocks))]
            body_calls = [c for c in body_calls if c and c["k"] == "call"]
            names = {c["npath"] for c in body_calls}
            restoring = names & ({ST + "set_collecting", ST + "set_finalizing", ST + "set_dropping", CM + "mark", CM + "set_dropped", CM + "reset_tracing_counter",
                                  LL + "remove_first", LQ + "poll", PC + "remove_first", "utils::cc_dealloc"})
            if restoring:
                relied.add(f.id)
                ks = P.fn_mayU(f)
                R.inst("R7.6", "cleanup-dtor-not-mayU:%s" % f.impl_of["self_ty"].split("<")[0], not ks,
                       "destructor of %s (restores state via %s) can reach user callbacks: %s" % (f.impl_of["self_ty"], sorted(short(x) for x in restoring), sorted(ks) or "none"), where=f.span, cfg=cfg)
    R.floor("R7.6", cfg, 6, len(relied))
    cu = P.call_sites(lambda ci: "catch_unwind" in ci["npath"])
    R.inst("R7.6", "no-catch_unwind", not cu, "calls of catch_unwind in the crate: %s" % [f.npath for f, _, _ in cu], cfg=cfg, nontrivial=False)

    check_wrappers(R, F, P, cfg, "R7.9")

    # ---- R7.8 no buffered box across its own payload destructor --------------------------------------
    R.doc("R7.8", "Cc::drop un-buffers the box (remove_from_list) and brings its count to 0 before the payload destructor can run: if that destructor panics the leaked box must not stay linked in the buffer")
    dr = anchor(F, "<cc::Cc<T> as std::ops::Drop>::drop")
    Sd = Super(P, dr, opaque=default_opaque(F) - {dr.npath})
    pds = [x for x in Sd.usite_nodes(("DROP",)) if x.ci["k"] == "call"]
    for n in pds:
        so = obj_of(Sd.args_of(n)[0])
        rm = [x for x in Sd.calls_to("cc::remove_from_list") if obj_of(Sd.args_of(x)[0]) == so and Sd.dominates(x, n, exclude=("ui", "u"))]
        R.inst("R7.8", "unbuffer-before-payload-drop", bool(rm), "remove_from_list(self) %s the payload destructor in Cc::drop" % ("dominates" if rm else "does NOT dominate"), where=n.where(), cfg=cfg)
    R.floor("R7.8", cfg, 1, len(pds))

    # ---- R7.7 idle tracing counters / uninitialised wrapper -------------------------------------
    check_idle_tc(R, F, P, cfg, "R7.7")
    if weak:
        check_uninit_drop(R, F, P, cfg, "R7.7")


# ------------------------------------------------------------------------------------------------


def container_drains(F, P, adt, pop):
    """The ADT has a destructor whose every return is reached only through the None exit of a loop calling `pop` on self."""
    if not adt["destructor"] or adt["destructor"] not in P.fns:
        return False, "%s has no Drop impl: members left in it on unwind stay marked" % adt["path"]
    df = P.fns[adt["destructor"]]
    S = Super(P, df, opaque=default_opaque(F))
    pops = S.calls_to(pop)
    if not pops:
        return False, "destructor of %s does not call %s" % (adt["path"], short(pop))
    if not any(on_cycle(S, p) for p in pops):
        return False, "destructor of %s calls %s but not in a loop" % (adt["path"], short(pop))
    # every return dominated by "pop result is None"
    for r in S.returns:
        lits = S.literals_at(r)
        ok = False
        for a, tr in lits:
            e = a[1] if a[0] in ("bool", "discr", "val") else None
            if e is None:
                continue
            s = fmt(e)
            if short(pop).split("::")[-1] in s and ((a[0] == "bool" and "is_some" in s and tr is False) or (a[0] == "bool" and "is_none" in s and tr is True) or (a[0] == "discr" and tr in (("is", 0), ("not", 1)))):
                ok = True
        if not ok:
            return False, "a return of %s's destructor is not dominated by `%s` returning None (literals: %s)" % (adt["path"], short(pop), [tables.fmt_atom(a) + "=" + str(t) for a, t in lits])
    return True, "destructor of %s loops on %s until None (%d returns checked)" % (adt["path"], short(pop), len(S.returns))


def forget_sites(F, P):
    res = []
    for f in F.fns.values():
        for bb in range(len(f.blocks)):
            ci = P.classify(f, bb)
            if ci and ci["k"] == "call" and ci["npath"] in FORGET:
                ty = ci["term"]["callee"]["substs"][0]
                adt = adt_of_type(F, ty)
                if adt is None:
                    continue
                if not adt["drop_tree"]:
                    continue
                res.append((f, bb, ci, ty, adt))
    return res


def check_forgets(R, F, P, cfg):
    n = 0
    for (f, bb, ci, ty, adt) in forget_sites(F, P):
        rootf = site_root(P, f)
        S = Super(P, rootf, opaque=default_opaque(F) - {rootf.npath})
        nodes = [x for x in S.nodes if x.ctx.fn is f and x.bb == bb]
        for N in nodes:
            n += 1
            kind, ok, detail = classify_forget(S, F, P, N, ty, adt, rootf)
            R.inst("R7.3", "forget:%s:%s" % (rootf.npath, type_head(ty)), ok, "[%s] %s" % (kind, detail), where=N.where(), cfg=cfg)
    return n


def dtor_calls(P, adt):
    """Names called by the destructors in the drop tree of an ADT (one level)."""
    names = set()
    for d in adt["drop_tree"]:
        if d in P.fns:
            df = P.fns[d]
            for bb in range(len(df.blocks)):
                c = P.classify(df, bb)
                if c and c["k"] == "call":
                    names.add(c["npath"])
    return names


def classify_forget(S, F, P, N, ty, adt, rootf):
    P_ = P
    names = dtor_calls(P, adt)
    arg = S.args_of(N)[0]
    head = type_head(ty)
    # K2: mark guard
    if CM + "mark" in names and not (names & {LL + "remove_first", LQ + "poll", PC + "remove_first"}):
        # the guard's object must be inside a container on every path to the forget
        g = strip(arg)
        obj = None
        if isinstance(g, tuple) and g and g[0] == "ret" and g[2]:
            obj = obj_of(g[2][0])
        elif isinstance(g, tuple) and g and g[0] == "agg" and g[3]:
            obj = obj_of(g[3][0])
        adds = [x for x in S.calls_to(LL + "add", LQ + "add") if len(S.args_of(x)) > 1 and obj_of(S.args_of(x)[1]) == obj]
        ok, wit = (False, None)
        if adds:
            ok, wit = S.must_pass(S.entry, lambda x: x in adds, [N], exclude=("ui", "u"))
        return "K2 mark guard", ok, "guard for object %s is forgotten %s the object was added to a container on every path (%d add sites)" % (fmt(obj), "after" if ok else "although NOT", len(adds))
    # containers
    if names & {LL + "remove_first", LQ + "poll", PC + "remove_first"} or head in ("lists::LinkedList", "lists::LinkedQueue"):
        cont = strip(arg)
        # K1: provably empty - dominated by the None exit of a pop on the same container with no use in between
        lits = S.literals_at(N, exclude=("ui", "u"))
        for a, tr in lits:
            if a[0] == "discr" and tr in (("is", 0), ("not", 1)):
                e = strip(a[1])
                if isinstance(e, tuple) and e and e[0] == "ret" and e[1] in (LL + "remove_first", LQ + "poll") and e[2] and strip(e[2][0]) == cont:
                    # no later call (on any path from that switch's None edge to N) passes the container mutably
                    sw = [x for x in S.nodes if x.kind == "switch" and S.switch_expr(x) == a[1] or (x.kind == "switch" and strip(S.switch_expr(x)) == ("discr", a[1]))]
                    users = []
                    for x in S.call_nodes():
                        if x is N or x.ci["k"] != "call":
                            continue
                        if x.ci["npath"] in GETTERS:
                            continue
                        if any(strip(y) == cont for y in S.args_of(x)):
                            users.append(x)
                    # users reachable after the last None-exit and before N
                    late = []
                    for u in users:
                        if u.ci["npath"] in (LL + "remove_first", LQ + "poll"):
                            continue
                        # u lies between: dominated by the None literal as well and reaches N
                        ul = S.literals_at(u, exclude=("ui", "u"))
                        if (a, tr) in ul and N.idx in S.reachable(u, exclude=("ui", "u")):
                            late.append(u.where())
                    return "K1 container provably empty", not late, "forgotten container %s: dominated by `%s` returning None; later uses before the forget: %s" % (fmt(cont), short(e[1]), late or "none")
        # K4 table
        if rootf.npath == PC + "mark_self_and_append":
            # the head of the forgotten list must have been linked into self on every path
            linked = uses_field(S, cont, "first")
            return "K4 list re-linked into the buffer", linked, "to_append.first is %s read and stored into the buffer's links before the forget" % ("" if linked else "NOT")
        if rootf.npath == "deallocate_list":
            # (a) wrapped into a type whose destructor handles it
            for x in S.nodes:
                for s in x.stmts:
                    if s["k"] == "assign" and s["rv"]["k"] == "agg" and s["rv"].get("agg") == "adt":
                        vals = [strip(S.resolve_op(x.ctx, o)) for o in s["rv"]["ops"]]
                        if any(v == ("ret", ) for v in vals):
                            pass
            dest_expr = ("ret", N.ci["npath"], S.args_of(N), "%s:bb%d" % (N.ctx.fn.npath, N.bb))
            wrapped = None
            for x in S.nodes:
                for s in x.stmts:
                    if s["k"] == "assign" and s["rv"]["k"] == "agg" and s["rv"].get("agg") == "adt":
                        vals = [S.resolve_op(x.ctx, o) for o in s["rv"]["ops"]]
                        if any(strip(v) == strip(arg) for v in vals):
                            wrapped = adt_of_type(F, s["rv"]["adt"])
            if wrapped is not None and wrapped["destructor"]:
                wn = dtor_calls(P, wrapped)
                ok = bool(wn & {LL + "remove_first", "std::mem::ManuallyDrop::<T>::drop"})
                return "K4 wrapped by a draining destructor", ok, "the list is wrapped into %s whose destructor calls %s" % (wrapped["path"], sorted(short(w) for w in wn & {LL + "remove_first", "std::mem::ManuallyDrop::<T>::drop", CM + "set_dropped"}))
            # (b) the wrapper itself forgotten after the destructor pass: no may-U call may follow
            after = S.reachable(N, exclude=("ui", "u"))
            late = [x.where() for x in S.mayU_nodes() if x.idx in after and x is not N and not x.is_cleanup]
            frees = [x for x in S.calls_to("utils::cc_dealloc") if x.idx in after]
            return "K4 drop list after all destructors ran", (not late) and bool(frees), "no call that may reach user code follows (%s) and the freeing pass follows (%d cc_dealloc)" % (late or "none", len(frees))
        return "unknown container forget", False, "forgetting %s here matches no discharge kind (K1 provably empty / K4 table)" % ty
    # K3 unwind-only guards (destructor frees or resets on unwind): forgotten only after the last may-U call they cover
    if names & {"utils::cc_dealloc", CM + "reset_tracing_counter"} and head not in ("cc::Cc", "weak::Weak"):
        after = S.reachable(N, exclude=("ui", "u"))
        cover = guard_coverage(S, N, arg, names)
        late = [x for x in cover if x.idx in after]
        return "K3 unwind-only guard", not late, "guard forgotten at %s; callbacks that still need it afterwards: %s" % (N.where(), [x.where() for x in late] or "none")
    if head == "cc::Cc":
        if rootf.npath == "cc::Cc::<T>::try_unwrap":
            # every return: either ManuallyDrop::into_inner(cc) is returned, or cc_dealloc ran
            bad = []
            paths = tables.normal_paths(S)
            for p in paths:
                freed = p.calls("utils::cc_dealloc")
                rv = p.retval()
                into = _mentions_call(rv, arg)
                if not freed and not into:
                    bad.append(p.describe()[:120])
            return "K4 try_unwrap ownership", not bad, "%d paths: each either frees the box or returns the same pointer; offending: %s" % (len(paths), bad or "none")
        if rootf.npath.endswith("new_cyclic"):
            # followed by an explicit decrement before any callback
            after = S.reachable(N, exclude=("ui", "u"))
            decs = [x for x in S.calls_to(CM + "decrement_counter") if x.idx in after]
            ok = bool(decs)
            if ok:
                ok2, _ = S.must_pass(N, lambda x: x in decs, [x for x in S.mayU_nodes() if x.idx in after and not x.is_cleanup] or S.returns, exclude=("ui", "u"))
                ok = ok2
            return "K4 new_cyclic count handed to the explicit decrement", ok, "forget(cc) is followed by decrement_counter before any callback: %s" % ok
        return "unknown Cc forget", False, "forgetting a Cc here bypasses Cc::drop and matches no table entry"
    if head == "weak::Weak":
        return "Weak forgotten", False, "forgetting a Weak leaks the weak count / side record (no table entry)"
    # other crate destructors (flag guards etc.)
    if names & {ST + "set_collecting", ST + "set_finalizing", ST + "set_dropping"}:
        return "flag guard forgotten", False, "a phase-flag guard must never be forgotten"
    return "other", True, "type %s has destructors %s that restore no collector state" % (ty, adt["drop_tree"])


def _mentions_call(e, arg):
    if e == arg or strip(e) == strip(arg):
        return True
    if isinstance(e, tuple):
        return any(_mentions_call(x, arg) for x in e)
    return False


def uses_field(S, base, field):
    for x in S.nodes:
        for s in x.stmts:
            if s["k"] == "assign":
                v = S.resolve_rv(x.ctx, s["rv"], None)
                if _has_field(v, base, field):
                    return True
        if x.ci is not None and x.ci["k"] == "call":
            for a in S.args_of(x):
                if _has_field(a, base, field):
                    return True
    return False


def _has_field(e, base, field, d=0):
    if d > 8 or not isinstance(e, tuple):
        return False
    if e and e[0] == "field" and e[2] == field and strip(e[1]) == base:
        return True
    return any(_has_field(x, base, field, d + 1) for x in e)


def guard_coverage(S, N, arg, names):
    """may-U nodes a guard value covers: those whose unwind path runs the guard's destructor."""
    res = []
    key = "utils::cc_dealloc" if "utils::cc_dealloc" in names else CM + "reset_tracing_counter"
    for U in S.mayU_nodes():
        if U.is_cleanup:
            continue
        reach = unwind_reach(S, U)
        if any(S.nodes[i].ci is not None and not S.nodes[i].inlined and S.nodes[i].ci["k"] == "call" and S.nodes[i].ci["npath"] == key for i in reach):
            res.append(U)
    return res


# ---- R-IDLE-TC -------------------------------------------------------------------------------


def check_idle_tc(R, F, P, cfg, rule):
    R.doc(rule, "R-IDLE-TC: an increment_tracing_counter executed on an object that stays in the buffer (is_in_possible_cycles()==true) must be undone if the "
                "collection unwinds: every callback made while the buffer may be non-empty has on its unwind path a loop resetting the tracing counters of the "
                "buffered objects (or the buffer is normalised before the first callback). R-UNINIT-DROP: see C14.")
    tr = anchor(F, CCBOX0 + "trace")
    S = Super(P, tr, opaque=default_opaque(F) - {tr.npath})
    incs = []
    for x in S.calls_to(CM + "increment_tracing_counter"):
        lits = S.literals_at(x)
        if any(a[0] == "bool" and strip(a[1])[0] == "call" and strip(a[1])[1] == CM + "is_in_possible_cycles" and t is True for a, t in lits):
            incs.append(x)
    if not incs:
        R.inst(rule, "idle-tc", True, "D1: no increment_tracing_counter under is_in_possible_cycles()==true", where=tr.span, cfg=cfg)
        return
    col = anchor(F, "collect")
    S2 = Super(P, col, opaque=flag_opaque(F))
    # callbacks that can run while the buffer still has members: TRACE sites inside the buffer-draining loop of trace_counting,
    # i.e. not dominated by the None exit of possible_cycles.remove_first()
    k = 0
    for U in S2.usite_nodes(("TRACE",)):
        lits = S2.literals_at(U, exclude=("ui", "u"))
        drained = any(a[0] == "discr" and t in (("is", 0), ("not", 1)) and "remove_first" in fmt(a[1]) and PC[:-2].split("::")[-1] and _is_pc_pop(a[1]) for a, t in lits)
        if drained:
            continue
        k += 1

        def resets(x):
            return x.ci is not None and not x.inlined and x.ci["k"] == "call" and x.ci["npath"] == CM + "reset_tracing_counter" and on_cycle(S2, x, exclude=("ui",)) and x.is_cleanup_ctx()
        def resets2(x):
            if x.ci is None or x.inlined or x.ci["k"] != "call" or x.ci["npath"] != CM + "reset_tracing_counter":
                return False
            return any(c.via == "dtor" for c in _ctx_chain(x.ctx))
        heads = [h for h in loop_heads_applying(S2, resets2, exclude=("ui",)) if _walks_whole_buffer(S2, h)]
        # the same walk written as `possible_cycles.iter().for_each(|p| reset(p))`: the pass is the for_each call
        for x_ in S2.nodes:
            if resets2(x_):
                ic = iteration_context(S2, x_)
                if ic is not None and ic["kind"] in ("for_each", "fold") and ic["every"] and ic["whole"] and ic["item_ok"] and "possible_cycles" in fmt(ic["list"]):
                    heads.append(ic["pass"])
        ok, _ = unwind_must_pass(S2, U, lambda x: x in heads)
        chain = " > ".join(P.fns[c].npath.split("::")[-1] for c in U.ctx.chain)
        R.inst(rule, "idle-tc", ok,
               "%s increments the tracing counter of an object that stays buffered (%s); the Trace::trace callback reached via [%s] can unwind while the buffer is non-empty and its unwind path %s a loop that resets the tracing counters of the buffered objects: the next collection %s" % (
                   tr.npath, incs[0].where(), chain, "passes" if ok else "does NOT pass", "starts from clean counters" if ok else "would read stale counters and may reclaim a live object"),
               where=U.where(), cfg=cfg)
    R.floor(rule + "/idle-tc", cfg, 1, k)


def _walks_whole_buffer(S, head):
    """The reset loop really visits every buffered object: it pops the buffer until None, or iterates its iterator,
    or walks it by hand starting at PossibleCycles::first() and advancing through the *next* link of the element it just reset."""
    ctx = head.ctx
    cyc = [n for n in S.nodes if n.ctx is ctx and on_cycle(S, n, exclude=("ui",))]
    for n in cyc:
        if n.ci is not None and n.ci["k"] == "call" and n.ci["npath"] == PC + "remove_first":
            return True
        if n.ci is not None and n.ci["k"] == "call" and n.ci["npath"] == "std::iter::Iterator::next" and "iter(" in fmt(S.args_of(n)[0]) and "possible_cycles" in fmt(S.args_of(n)[0]):
            return True
    e = S.switch_expr(head)
    e = e[1] if isinstance(e, tuple) and e and e[0] == "discr" else e
    e = strip(e)
    if not (isinstance(e, tuple) and e and e[0] == "phi"):
        return False
    L = e[2]
    fn = ctx.fn
    seeds, advances = [], []
    for d in S._defs(fn).get(L, []):
        if d[0] == "stmt":
            v = S.resolve_rv(ctx, fn.blocks[d[1]]["stmts"][d[2]]["rv"], None)
        else:
            v = S.resolve_call_value(ctx, d[1])
        sv = fmt(strip(v))
        nd = S.blocks_of.get((ctx.id, d[1]))
        in_loop = nd is not None and nd in cyc
        if in_loop:
            advances.append(sv)
        else:
            seeds.append(sv)
    resets = [n for n in cyc if n.ci is not None and n.ci["k"] == "call" and n.ci["npath"] == CM + "reset_tracing_counter"]
    elem = fmt(obj_of(S.args_of(resets[0])[0])) if resets else None
    seed_ok = bool(seeds) and all(("first(" in s_ and "possible_cycles" in s_) or s_.endswith("possible_cycles.first)") for s_ in seeds)
    adv_ok = bool(advances) and elem is not None and all(a == "%s.next" % elem or a == "*%s.next" % elem or a.endswith(".next") and elem in a for a in advances)
    return seed_ok and adv_ok


def _ctx_chain(c):
    out = []
    while c is not None:
        out.append(c)
        c = c.parent
    return out


def _is_pc_pop(e):
    e = strip(e)
    return isinstance(e, tuple) and e and e[0] == "ret" and e[1] == PC + "remove_first"


# ---- R-UNINIT-DROP ---------------------------------------------------------------------------


def uninit_wrappers(F, P):
    """ADTs whose destructor assumes a MaybeUninit field is initialised."""
    res = []
    for a in F.adts.values():
        d = a["destructor"]
        if d and d in P.fns:
            df = P.fns[d]
            for bb in range(len(df.blocks)):
                c = P.classify(df, bb)
                if c and c["k"] == "call" and "MaybeUninit" in c["npath"] and "assume_init" in c["npath"]:
                    res.append(a)
                    break
    return res


def check_uninit_drop(R, F, P, cfg, rule):
    ws = uninit_wrappers(F, P)
    R.inst(rule, "uninit-wrappers", len(ws) >= 1, "types whose Drop assumes a MaybeUninit is initialised: %s" % [w["path"] for w in ws], cfg=cfg, nontrivial=False)
    k = 0
    for w in ws:
        wname = w["path"]
        # functions that build the wrapper from MaybeUninit::uninit()
        ctors = set()
        for f in F.fns.values():
            for b in f.blocks:
                for s in b["stmts"]:
                    if s["k"] == "assign" and s["rv"]["k"] == "agg" and s["rv"].get("adt") == wname:
                        ctors.add(f.npath)
        # callers holding such a value
        for f in F.fns.values():
            if f.npath in ctors or f.kind == "closure":
                continue
            uses = [bb for bb in range(len(f.blocks)) if (P.classify(f, bb) or {}).get("npath") in ctors and (P.classify(f, bb) or {}).get("k") == "call"]
            cls = [c for c in main_closures(P, f) if any((P.classify(c, bb) or {}).get("npath") in ctors for bb in range(len(c.blocks)))]
            if not uses and not cls:
                continue
            S = Super(P, f, opaque=flag_opaque(F), expand_user_dtors=False)
            for D in S.nodes:
                if D.ci is None or D.ci["k"] != "drop":
                    continue
                pl = S.resolve_place(D.ctx, D.term["place"])
                if not _mentions_ctor(pl, ctors):
                    continue
                k += 1
                # is this drop reachable through the unwind edge of a call that may reach user code?
                culprits = []
                for U in S.mayU_nodes():
                    if D.idx in unwind_reach(S, U):
                        culprits.append(U)
                R.inst(rule, "uninit-drop:%s" % f.npath, not culprits,
                       "the still-uninitialised %s built in %s is dropped at %s on the unwind path of %s: its destructor would drop a value that was never written" % (
                           wname, f.npath, D.where(), [short(u.ci.get("npath", "?")) + " (" + ",".join(sorted(P.site_mayU(u.ci))) + ")" for u in culprits[:3]]) if culprits else
                       "drop of the %s value at %s is not reachable from any call that may reach user code" % (wname, D.where()),
                       where=D.where(), cfg=cfg)
    R.inst(rule, "uninit-drop-sites", True, "%d drop sites of uninitialised wrapper values examined" % k, cfg=cfg, nontrivial=False)


def _mentions_ctor(e, ctors, d=0):
    if d > 10 or not isinstance(e, tuple):
        return False
    if e and e[0] in ("ret", "call") and e[1] in ctors:
        return True
    if e and e[0] in ("call", "ret") and "MaybeUninit" in e[1] and e[1].endswith("::uninit"):
        return True
    return any(_mentions_ctor(x, ctors, d + 1) for x in e)
