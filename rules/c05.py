"""C05 - Finalizers run only on garbage, once, and before any drop of the same set."""
from engine.graph import Super, fmt, strip, U_KINDS
from engine import tables
from .common import *
from . import c07, c12

LEVEL = "other"
EXPLANATION = ("Structural necessary conditions of C05 on the MIR facts: (R5.1) the sites that may call a finalizer are a closed set; each is guarded by needs_finalization()==true and "
               "dominated by set_finalized(true) on the same object (flag first, so at most once even if the finalizer panics or re-enters); set_finalized(false) only in finalize_again; "
               "(R5.2) finalize-before-drop: on the reference-count path the payload drop is reachable only through the finalizer call or the already-finalized edge; in the collector the "
               "truth table of finalize_inner (returns true iff it called the finalizer), the fold closure (finalize_inner(x) || acc, call unconditional) and the guard of deallocate_list "
               "(only when the pass finalized nothing) give `all finalizers of a set before any of its destructors`; (R5.3) objects created while finalizing start already-finalized "
               "(constants evaluated); (R5.4) without the `finalization` feature no finalizer call site exists; (R5.5) finalize_again's guard; garbage-only via C01's rules incl. R-IDLE-TC.")


def finalize_entry_sites(F, P):
    """FINALIZE callback sites outside `impl Finalize for <container>` forwarders."""
    out = []
    for (f, bb, kind, ci) in P.usites:
        if kind != "FINALIZE":
            continue
        rf = site_root(P, f)
        if rf.impl_of and rf.impl_of.get("trait") and rf.impl_of["trait"].endswith("Finalize") and "CcBox" not in rf.impl_of["self_ty"]:
            continue
        out.append((f, bb, ci))
    return out


def check(R, F, P, cfg):
    fin = F.has("finalization")
    DO = default_opaque(F)
    sites = finalize_entry_sites(F, P)

    # ---- R5.4 feature off ---------------------------------------------------------------------------------
    R.doc("R5.4", "without the `finalization` feature the crate contains no call site of Finalize::finalize outside the forwarding impls, and no caller of the forwarding impl of CcBox")
    if not fin:
        real = []
        for (f, bb, ci) in sites:
            rf = site_root(P, f)
            if rf.npath == "<cc::CcBox<T> as trace::Finalize>::finalize":
                # forwarding impl: must be uncalled
                if P.callers(rf.id):
                    real.append(rf.npath + " (called)")
                continue
            real.append("%s bb%d" % (f.npath, bb))
        R.inst("R5.4", "no-finalize-sites", not real, "finalizer call sites without `finalization`: %s" % (real or "none"), cfg=cfg)
        own = owners_of_calls(P, lambda c: c["npath"].endswith("Finalize::finalize") or c["npath"].endswith("finalize_elem"))
        own = {o for o in own if not (o.startswith("<") and " as trace::Finalize>" in o)}
        R.inst("R5.4", "no-finalize-callers", not own, "functions calling finalize outside forwarding impls: %s" % (sorted(own) or "none"), cfg=cfg)
        return

    # ---- R5.1 who may finalize ------------------------------------------------------------------------------
    R.doc("R5.1", "closed set of finalizer call sites; each under needs_finalization()==true and dominated by set_finalized(true) on the same object; set_finalized(false) only in finalize_again")
    owners = set()
    for (f, bb, ci) in sites:
        owners |= lift_owner(P, f)        # closures, nested fns and private helpers count as the function they belong to
    expected = {"<cc::Cc<T> as std::ops::Drop>::drop", "<cc::CcBox<T> as cc::InternalTrace>::finalize_elem", "<cc::CcBox<T> as trace::Finalize>::finalize"}
    R.inst("R5.1", "who-may-finalize", owners <= expected and len(owners) >= 2, "finalizer call sites are in %s (allowed %s)" % (sorted(owners), sorted(expected)), cfg=cfg)
    own = owners_of_calls(P, lambda c: c["npath"] == "cc::InternalTrace::finalize_elem")
    R.inst("R5.1", "finalize_elem-callers", set(own) == {CCBOX0 + "finalize_inner"}, "finalize_elem is called from %s" % sorted(own), cfg=cfg)
    own = owners_of_calls(P, lambda c: c["npath"] == CCBOX0 + "finalize_inner")
    R.inst("R5.1", "finalize_inner-callers", set(own) == {"__collect"}, "finalize_inner is called from %s" % sorted(own), cfg=cfg)
    fwd = F.fn("<cc::CcBox<T> as trace::Finalize>::finalize")
    if fwd is not None:
        cs = P.callers(fwd.id)
        R.inst("R5.1", "ccbox-forwarder-uncalled", not cs, "the forwarding impl Finalize for CcBox is called from %s" % [c[0].npath for c in cs], cfg=cfg, nontrivial=False)
    k = 0
    for fname, site_pred in (("<cc::Cc<T> as std::ops::Drop>::drop", lambda n: n.ci.get("ukind") == "FINALIZE"),
                             (CCBOX0 + "finalize_inner", lambda n: n.ci["k"] == "call" and n.ci["npath"] == "cc::InternalTrace::finalize_elem")):
        f = anchor(F, fname)
        S = Super(P, f, opaque=DO - {fname})
        for n in [x for x in S.call_nodes() if site_pred(x)]:
            k += 1
            obj = obj_of(S.args_of(n)[0])
            lits = S.literals_at(n, exclude=("ui", "u"))
            sf = [x for x in S.calls_to(CM + "set_finalized") if obj_of(S.args_of(x)[0]) == obj and S.args_of(x)[1] == ("const", 1) and S.dominates(x, n, exclude=("ui", "u"))]
            ok = has_lit(lits, CM + "needs_finalization", True, obj) and bool(sf)
            R.inst("R5.1", "flag-before-call:%s" % fname, ok, "finalizer call on %s under %s; dominated by set_finalized(true) on it: %s" % (fmt(obj), lits_str(lits), bool(sf)), where=n.where(), cfg=cfg)
    R.floor("R5.1/flag-before-call", cfg, 2, k)
    own = owners_of_calls(P, lambda c: c["npath"] == CM + "set_finalized")
    bad = []
    for o, ss in own.items():
        for (f, bb) in ss:
            rf = site_root(P, f)
            S = Super(P, rf, opaque=DO - {rf.npath})
            for n in [x for x in S.calls_to(CM + "set_finalized") if x.ctx.fn is f and x.bb == bb]:
                v = S.args_of(n)[1]
                if v != ("const", 1) and o != "cc::Cc::<T>::finalize_again":
                    bad.append("%s: set_finalized(%s)" % (o, fmt(v)))
    R.inst("R5.1", "who-clears-flag", not bad, "set_finalized with a value other than `true` outside finalize_again: %s" % (bad or "none"), cfg=cfg)

    # ---- R5.2 finalize before drop ------------------------------------------------------------------------------
    R.doc("R5.2", "RC path: every path to the payload drop passes the finalizer call or the needs_finalization()==false edge; collector: finalize_inner returns true iff it called the "
                  "finalizer; the fold closure computes finalize_inner(x) || acc with the call on every path; deallocate_list is reached only when the fold returned false")
    dr = anchor(F, "<cc::Cc<T> as std::ops::Drop>::drop")
    S = Super(P, dr, opaque=DO - {dr.npath})
    pd = [n for n in S.usite_nodes(("DROP",)) if n.ci["k"] == "call"]
    for d in pd:
        paths = S.paths(S.entry, lambda n: n is d, exclude=("ui", "u"), limit=20000)
        bad = []
        npaths = 0
        for p in paths:
            if p[-1][0] is not d:
                continue
            npaths += 1
            pi = tables.PathInfo(S, p)
            nf_false = any(a[0] == "bool" and getter_of(a[1])[0] == CM + "needs_finalization" and t is False for a, t in pi.literals)
            called = any(x.ci.get("ukind") == "FINALIZE" for x in pi.events)
            if not (nf_false or called):
                bad.append(pi.describe()[:120])
        R.inst("R5.2", "rc-finalize-before-drop", not bad and npaths >= 2, "%d paths reach the payload drop in Cc::drop; each passes the finalizer or the already-finalized edge: %s" % (npaths, bad or "yes"), where=d.where(), cfg=cfg)
    fi = anchor(F, CCBOX0 + "finalize_inner")
    S = Super(P, fi, opaque=DO - {fi.npath})
    ps = tables.normal_paths(S)
    bad = []
    for p in ps:
        called = bool(p.calls("cc::InternalTrace::finalize_elem"))
        rv = p.retval()
        if rv != ("const", 1 if called else 0):
            bad.append("called=%s returns %s" % (called, fmt(rv)))
    R.inst("R5.2", "finalize_inner-table", not bad and len(ps) == 2, "finalize_inner: %d paths, returns true iff the finalizer was called: %s" % (len(ps), bad or "yes"), where=fi.span, cfg=cfg)
    col = anchor(F, "__collect")
    S = Super(P, col, opaque=DO - {"__collect"})
    fcalls = S.calls_to(CCBOX0 + "finalize_inner")
    for n in fcalls:
        cl = n.ctx
        if cl is S.root_ctx or cl.call_node is None:
            info = finalize_pass_info(S)
            ic = iteration_context(S, n)
            okl = info["ok"] and ic is not None and ic["every"]
            R.inst("R5.2", "fold-closure", okl, "finalization pass written as a loop: %s; finalize_inner on every iteration: %s" % (info["detail"], bool(ic and ic["every"])), where=n.where(), cfg=cfg)
            continue
        # closure paths: entry -> return
        entry = S.blocks_of[(cl.id, 0)]
        rets = [x for x in S.nodes if x.ctx is cl and x.kind == "return"]
        ok_every, _ = S.must_pass(entry, lambda x: x is n, rets, exclude=("ui", "u", "loop"))
        # return value table
        bad = []
        for x in rets:
            pass
        cps = S.paths(entry, lambda y: y.ctx is cl and y.kind == "return", exclude=("ui", "u", "loop", "ret"), limit=2000)
        vals = []
        for p in cps:
            if not (p[-1][0].ctx is cl and p[-1][0].kind == "return"):
                continue
            pi = tables.PathInfo(S, p)
            v = None
            for (y, lab) in p:
                if y.ctx is cl:
                    for s in y.stmts:
                        if s["k"] == "assign" and s["place"]["l"] == 0 and not s["place"]["p"]:
                            v = S.resolve_rv(cl, s["rv"], None)
            t = None
            for a, tr in pi.literals:
                if a[0] == "bool" and strip(a[1])[0] == "ret" and strip(a[1])[1] == CCBOX0 + "finalize_inner":
                    t = tr
            vals.append((t, v))
        acc = cl.bind.get(2)
        ok_tab = sorted(vals, key=repr) == sorted([(True, ("const", 1)), (False, acc)], key=repr)
        R.inst("R5.2", "fold-closure", ok_every and ok_tab, "fold closure: finalize_inner on every path=%s; result table %s (required: true -> true, false -> accumulator %s)" % (ok_every, [(t, fmt(v)) for t, v in vals], fmt(acc)), where=n.where(), cfg=cfg)
        # fold starts from false over the non-root list
        carrier = cl.call_node
        a = S.args_of(carrier)
        ok = len(a) >= 2 and a[1] == ("const", 0) and strip(a[0])[0] == "ret" and strip(a[0])[1] == LL + "iter"
        R.inst("R5.2", "fold-init", ok, "fold(%s, %s, ..): required iter() of the non-root list and initial value false" % (fmt(a[0]), fmt(a[1]) if len(a) > 1 else "?"), where=carrier.where(), cfg=cfg)
    R.floor("R5.2/fold", cfg, 1, len(fcalls))
    for n in S.calls_to("deallocate_list"):
        lits = S.literals_at(n, exclude=("ui", "u"))
        ok = any(a[0] == "bool" and is_has_finalized(S, a[1]) and t is False for a, t in lits)
        R.inst("R5.2", "dealloc-only-if-nothing-finalized", ok, "deallocate_list in __collect under %s; required: the finalization fold returned false" % lits_str(lits), where=n.where(), cfg=cfg)
    # the finalizing flag spans the fold: flag analysis of C12 covers is_tracing; here: finalize_inner sites are inside the guard
    # ---- R5.3 created while finalizing ---------------------------------------------------------------------------------
    R.doc("R5.3", "CcBox::new passes state.is_finalizing() to new_with_counter_to_one, whose initial counter word has the FINALIZED bit set iff that argument is true (constants evaluated)")
    nb = anchor(F, CCBOX + "new")
    S = Super(P, nb, opaque=DO - {nb.npath})
    for n in S.calls_to(CM + "new_with_counter_to_one"):
        a = S.args_of(n)[0]
        ok = strip(a)[0] == "call" and strip(a)[1] == ST + "is_finalizing"
        R.inst("R5.3", "new-passes-is_finalizing", ok, "new_with_counter_to_one(%s); required state.is_finalizing()" % fmt(a), where=n.where(), cfg=cfg)
    nw = anchor(F, CM + "new_with_counter_to_one")
    S = Super(P, nw, opaque=set())
    _L = word_layout(F)
    mask = _L["FM"] if _L["FM"] is not None else F.const("counter_marker::FINALIZED_MASK")
    cmask = _L["CMASK"]
    ps = tables.normal_paths(S)
    bad = []
    for p in ps:
        arg = None
        for a, t in p.literals:
            if a[0] == "bool" and strip(a[1])[0] == "param":
                arg = t
            if a[0] == "bool" and strip(a[1])[0] == "un":
                pass
        # counter value written on this path: last assignment to a local feeding Cell::new(counter)
        vals = []
        for (x, lab) in p.path:
            for s in x.stmts:
                if s["k"] == "assign" and s["rv"]["k"] == "use" and s["rv"]["op"]["k"] == "const" and s["rv"]["op"].get("ty") == "u16":
                    vals.append(s["rv"]["op"]["val"])
        lit = [(a, t) for a, t in p.literals]
        # polarity: `if !already_finalized` -> the literal may be on Not(param)
        pol = None
        for a, t in p.literals:
            if a[0] == "bool":
                e = strip(a[1])
                neg = False
                while isinstance(e, tuple) and e[0] == "un" and e[1] == "Not":
                    neg = not neg
                    e = e[2]
                if e[0] == "param":
                    pol = (t if not neg else (not t))
        cnt = [v for v in vals if v is not None and (v & cmask) == 1 and v != (1 | 0) or v == 1]
        word = None
        for v in vals:
            if v in (1, 1 | mask):
                word = v   # the branch-specific constant; the tracing counter word is assigned unconditionally
        # the branch-specific constant is the one assigned on a block that is not shared by all paths
        bad_here = pol is None or not any(((v & mask) != 0) == pol and (v & cmask) == 1 for v in vals if v != 1 or not pol)
        if pol is True and not any(v == (1 | mask) for v in vals):
            bad.append("already_finalized=true path writes %s" % vals)
        if pol is False and any(v & mask for v in vals):
            bad.append("already_finalized=false path writes %s" % vals)
        if pol is None:
            bad.append("path without a literal on the parameter")
    R.inst("R5.3", "initial-word-table", not bad and len(ps) == 2 and mask == 16384, "new_with_counter_to_one: %d paths; FINALIZED bit (mask %s) set iff already_finalized: %s" % (len(ps), mask, bad or "yes"), where=nw.span, cfg=cfg)

    # ---- R5.5 finalize_again guard --------------------------------------------------------------------------------------
    R.doc("R5.5", "finalize_again clears the flag only under !collecting & !finalizing & !dropping")
    fa = anchor(F, "cc::Cc::<T>::finalize_again")
    S = Super(P, fa, opaque=DO - {fa.npath})
    for n in S.calls_to(CM + "set_finalized"):
        ok, det = c12.check_finalize_again_guard(S, n, S.literals_at(n))
        R.inst("R5.5", "finalize_again-guard", ok, det, where=n.where(), cfg=cfg)

    # garbage only: the stale-tracing-counter defect finalizes live objects
    c07.check_idle_tc(R, F, P, cfg, "R5.6")


def _is_accumulator(S, e):
    e = strip(e)
    return isinstance(e, tuple) and e and e[0] in ("phi", "var") and getattr(S, "_acc_local", None) == e[2]


def _loop_accumulator(S, n):
    """finalize_inner called in a plain loop: accept iff (a) the call is on every iteration, (b) its result only ever
    ORs into one boolean accumulator that starts false (`acc = r | acc`, `acc |= r`, `if r { acc = true }`), and
    (c) that accumulator is what guards deallocate_list."""
    ctx = n.ctx
    fn = ctx.fn
    if not on_cycle(S, n, exclude=("ui", "u")):
        return False, "finalize_inner is not called in a loop over the list"
    res_local = n.term["dest"]["l"] if not n.term["dest"]["p"] else None
    # candidate accumulators: bool locals with several definitions
    defs = S._defs(fn)
    cands = [l for l, ds in defs.items() if fn.locals[l]["ty"] == "bool" and len(ds) >= 2]
    for L in cands:
        ok = True
        init_false = False
        uses_result = False
        for d in defs[L]:
            if d[0] != "stmt":
                ok = False
                break
            st = fn.blocks[d[1]]["stmts"][d[2]]
            rv = st["rv"]
            nd = S.blocks_of.get((ctx.id, d[1]))
            in_loop = nd is not None and on_cycle(S, nd, exclude=("ui", "u"))
            if rv["k"] == "use" and rv["op"]["k"] == "const":
                if rv["op"].get("val") == 0 and not in_loop:
                    init_false = True
                elif rv["op"].get("val") == 1 and in_loop:
                    lits = S.literals_at(nd, exclude=("ui", "u"))
                    if any(a[0] == "bool" and strip(a[1])[0] == "ret" and strip(a[1])[1] == CCBOX0 + "finalize_inner" and t is True for a, t in lits):
                        uses_result = True
                    else:
                        ok = False
                else:
                    ok = False
            elif rv["k"] == "bin" and rv["op"] == "BitOr":
                ops = [rv["a"], rv["b"]]
                ls = [o["place"]["l"] for o in ops if o["k"] in ("copy", "move") and not o["place"]["p"]]
                if L in ls and (res_local in ls):
                    uses_result = True
                else:
                    ok = False
            else:
                ok = False
        if ok and init_false and uses_result:
            S._acc_local = L
            # every iteration calls finalize_inner: the loop head is the Iterator::next switch
            return True, "accumulator `%s` starts false and only ORs finalize_inner's result in" % fn.local_name(L)
    return False, "the result of finalize_inner does not OR into a boolean accumulator that starts false (e.g. it is plainly assigned: only the last element would decide whether the set is re-examined)"
