"""C06 - Resurrection by finalizers is safe, precise and terminates."""
from engine.graph import Super, fmt, strip, U_KINDS
from engine import tables
from .common import *

LEVEL = "other"
EXPLANATION = ("Structural necessary conditions on the MIR facts (finalization configurations): (R6.1) after a pass that finalized anything nothing is deallocated and the whole set "
               "re-enters the buffer with tracing counters reset, to be re-traced (shared clauses R5.2, R2.5, R1.6 re-evaluated here); (R6.2) in Cc::drop the free path after the "
               "finalizer is dominated by a fresh read counter()!=1 == false made after the call, and the other edge buffers and returns without dropping; (R6.3) termination: "
               "collect's loop is driven by a constant range and objects created while finalizing are born finalized (R5.3); (R6.4) the finalized flag is never cleared except by "
               "finalize_again, so a resurrected object is not finalized twice. Not decided: precision (`the rest of that garbage is still reclaimed`) is behavioural.")

CONFIG_FILTER = staticmethod(lambda c: "finalization" in c[0]) if False else None


def check(R, F, P, cfg):
    if not F.has("finalization"):
        R.inst("R6.0", "no-finalization", True, "configuration without `finalization`: no finalizer can resurrect (R5.4 shows no finalizer call site exists)", cfg=cfg, nontrivial=False)
        return
    DO = default_opaque(F)
    dr = anchor(F, "<cc::Cc<T> as std::ops::Drop>::drop")
    S = Super(P, dr, opaque=DO - {dr.npath})

    # ---- R6.2 fresh recount after the finalizer ---------------------------------------------------------------
    R.doc("R6.2", "every path from the finalizer call to the payload drop / cc_dealloc passes a counter() read made after the call whose `== 1` edge it takes; the `!= 1` edge buffers self and returns")
    fz = S.usite_nodes(("FINALIZE",))
    for fnode in fz:
        obj = None
        frees = S.calls_to("utils::cc_dealloc") + [n for n in S.usite_nodes(("DROP",)) if n.ci["k"] == "call"]
        reads = [x for x in S.calls_to(CM + "counter") if x.idx in S.reachable(fnode, exclude=("ui", "u")) and x is not fnode]
        # reads after the finalizer: those dominated by it
        fresh = [x for x in reads if S.dominates(fnode, x, exclude=("ui", "u"))]
        ok_all = True
        det = []
        for fr in frees:
            if fr.idx not in S.reachable(fnode, exclude=("ui", "u")):
                continue
            ok, _ = S.must_pass(fnode, lambda x: x in fresh, [fr], exclude=("ui", "u"))
            # and the switch on that read: the free is on its ==1 side
            sw_ok = False
            for x in fresh:
                for sw in [y for y in S.nodes if y.kind == "switch" and S.dominates(x, y, exclude=("ui", "u"))]:
                    e = S.switch_expr(sw)
                    if isinstance(e, tuple) and e[0] == "bin" and CM + "counter" in repr(e) and repr(("const", 1)) in repr(e):
                        for (s, lab) in sw.succ:
                            if not isinstance(lab, tuple):
                                continue
                            eq_edge = (e[1] == "Eq" and lab[1] == "otherwise") or (e[1] == "Ne" and lab[1] == 0)
                            if eq_edge and fr.idx in S.reachable(s, exclude=("ui", "u")):
                                # and not reachable from the other edge
                                others = [s2 for (s2, l2) in sw.succ if l2 != lab and isinstance(l2, tuple)]
                                if not any(fr.idx in S.reachable(o, exclude=("ui", "u")) for o in others):
                                    sw_ok = True
            ok_all = ok_all and ok and sw_ok
            det.append("%s: fresh read on every path=%s, on the ==1 edge only=%s" % (short(fr.ci["npath"]), ok, sw_ok))
        R.inst("R6.2", "recount-after-finalizer", ok_all and bool(fresh), "; ".join(det) or "no free reachable", where=fnode.where(), cfg=cfg)
    R.floor("R6.2", cfg, 1, len(fz))
    # the resurrected edge: add_to_list and return, no drop
    paths = tables.normal_paths(S, limit=20000)
    k = 0
    bad = []
    for p in paths:
        fin_called = any(x.ci.get("ukind") == "FINALIZE" for x in p.events)
        lits_eq = [t for a, t in p.literals if a[0] == "cmp" and a[1] == "Eq" and getter_of(a[2])[0] == CM + "counter" and a[3] == ("const", 1)]
        if fin_called and False in lits_eq:
            k += 1
            ev = [x.ci.get("npath") for x in p.events if x.ci["k"] == "call"]
            if "cc::add_to_list" not in ev or "utils::cc_dealloc" in ev or any(x.ci.get("ukind") == "DROP" and x.ci["k"] == "call" for x in p.events):
                bad.append(p.describe()[:120])
    R.inst("R6.2", "resurrected-edge", not bad and k >= 1, "%d resurrected path(s): buffer self, no payload drop, no free: %s" % (k, bad or "yes"), where=dr.span, cfg=cfg)

    # ---- R6.1 ----------------------------------------------------------------------------------------------------
    R.doc("R6.1", "in __collect, on the has_finalized edge: no deallocate_list is reachable; swap_list and mark_self_and_append (which resets every tracing counter, R1.6) are executed")
    col = anchor(F, "__collect")
    S2 = Super(P, col, opaque=DO - {"__collect"})
    bad = []
    k = 0
    for p in tables.normal_paths(S2, limit=20000):
        t = None
        for a, tr in p.literals:
            if a[0] == "bool" and is_has_finalized(S2, a[1]):
                t = tr
        if t is True:
            k += 1
            if p.calls("deallocate_list") or not p.calls(PC + "swap_list") or not p.calls(PC + "mark_self_and_append"):
                bad.append(p.describe()[:120])
    R.inst("R6.1", "finalizing-pass-frees-nothing", not bad and k >= 1, "%d path(s) after a finalizing pass: no deallocate_list, re-buffered: %s" % (k, bad or "yes"), where=col.span, cfg=cfg)
    ms = anchor(F, PC + "mark_self_and_append")
    S3 = Super(P, ms, opaque=DO - {ms.npath})
    heads = applied_to_every_element(S3, lambda x: is_call(x, CM + "reset_tracing_counter"))
    R.inst("R6.1", "rebuffer-resets-counters", bool(heads), "mark_self_and_append resets the tracing counter of every element it marks (loop head found: %s)" % bool(heads), where=ms.span, cfg=cfg)

    # ---- R6.3 termination ----------------------------------------------------------------------------------------------
    R.doc("R6.3", "collect's only loop iterates a constant Range; it contains no `loop`/`while` on heap state")
    c = anchor(F, "collect")
    S4 = Super(P, c, opaque=DO - {"collect"})
    rng = []
    for x in S4.nodes:
        for s in x.stmts:
            if s["k"] == "assign" and s["rv"]["k"] == "agg" and s["rv"].get("adt", "").endswith("ops::Range"):
                rng.append([S4.resolve_op(x.ctx, o) for o in s["rv"]["ops"]])
    # every cycle in collect's own CFG passes the Range::next call
    nexts = [x for x in S4.nodes if x.ci is not None and x.ci["k"] == "call" and x.ci["npath"] == "std::iter::Iterator::next" and x.ctx is S4.root_ctx]
    cyc_nodes = [x for x in S4.nodes if x.ctx is S4.root_ctx and not x.is_cleanup and on_cycle(S4, x, exclude=("ui", "u"))]
    ok = len(rng) == 1 and rng[0][0] == ("const", 0) and rng[0][1][0] == "const" and len(nexts) == 1 and all(cycle_must_pass(S4, x, lambda y: y in nexts) or x in nexts for x in cyc_nodes)
    # the iterator is the Range
    R.inst("R6.3", "bounded-passes", ok, "collect: constant range %s; every cycle of its CFG passes the range's next(): %s" % ([[fmt(a) for a in r] for r in rng], ok), where=c.span, cfg=cfg)

    # ---- R6.4 -------------------------------------------------------------------------------------------------------------
    R.doc("R6.4", "set_finalized(false) (or with a non-constant argument) appears only in finalize_again")
    bad = []
    for (f, bb, ci) in P.call_sites(lambda cc_: cc_["npath"] == CM + "set_finalized"):
        rf = site_root(P, f)
        Sx = Super(P, rf, opaque=DO - {rf.npath})
        for n in [x for x in Sx.calls_to(CM + "set_finalized") if x.ctx.fn is f and x.bb == bb]:
            if Sx.args_of(n)[1] != ("const", 1) and rf.npath != "cc::Cc::<T>::finalize_again":
                bad.append(n.where())
    R.inst("R6.4", "flag-never-cleared", not bad, "sites clearing the finalized flag outside finalize_again: %s" % (bad or "none"), cfg=cfg)
