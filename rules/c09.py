"""C09 - Weak/strong counts are exact; the weak side record lives as long as needed."""
from engine.graph import Super, fmt, strip, U_KINDS
from engine import tables
from .common import *
from . import c07

LEVEL = "other"
EXPLANATION = ("Structural necessary conditions on the MIR facts (weak-ptrs configurations): (R9.1) weak-count discipline - every Weak aggregate with a side record is dominated by the Ok edge "
               "of the weak increment_counter on that record (new_cyclic's first increment from 0 allow-listed), Weak::drop decrements exactly once iff a record exists, no Weak is forgotten, "
               "the weak counter is written by nobody else; (R9.2) both weak_count getters forward the weak counter (0 without record), reading the union only under the matching flag; "
               "(R9.3) the record is freed only under the two exact guard sets of R3.5, so never while a Weak exists; (R9.4) get_or_init_metadata allocates only when no record exists, "
               "copies the inline vtable into the record, stores the pointer, then sets the flag bit; (R9.5) evaluated constants of the weak counter word. Exactness over histories: by induction, not mechanised.")


def check(R, F, P, cfg):
    if not F.has("weak-ptrs"):
        R.inst("R9.0", "no-weak-ptrs", True, "configuration without weak-ptrs", cfg=cfg, nontrivial=False)
        return
    DO = default_opaque(F)

    # ---- R9.1 -------------------------------------------------------------------------------------------------
    R.doc("R9.1", "Weak aggregates with Some(record) are dominated by the Ok edge of the weak increment on that record; who may write the weak counter; Weak::drop decrements once")
    k = 0
    for f in F.fns.values():
        for bi, b in enumerate(f.blocks):
            for s in b["stmts"]:
                if s["k"] == "assign" and s["rv"]["k"] == "agg" and s["rv"].get("adt") == "weak::Weak":
                  # a private constructor holding the aggregate is analysed from each function that calls it (expanded there)
                  for rootf in [F.fn(o) for o in sorted(lift_owner(P, site_root(P, f))) if F.fn(o) is not None]:
                    S = Super(P, rootf, opaque=DO - {rootf.npath})
                    for x in [y for y in S.nodes if y.ctx.fn is f and y.bb == bi]:
                        k += 1
                        vals = dict(zip(s["rv"]["fields"], [S.resolve_op(x.ctx, o) for o in s["rv"]["ops"]]))
                        md = vals.get("metadata")
                        if fmt(md).endswith("Option::None{}"):
                            R.inst("R9.1", "weak-aggregate:%s" % rootf.npath, rootf.npath == "weak::Weak::<T>::new", "Weak without side record built in %s (only Weak::new may)" % rootf.npath, where=x.where(), cfg=cfg)
                            continue
                        rec = _record_of(md)
                        lits = S.literals_at(x, exclude=("ui", "u"))
                        ok = _weak_inc_ok(lits, rec)
                        if rootf.npath == "<weak::Weak<T> as std::clone::Clone>::clone":
                            # metadata copied from self; the increment happens only when a record exists: decided by the path table `weak-clone-table` below
                            same = fmt(md).endswith("self.metadata") and fmt(vals.get("cc")).endswith("self.cc")
                            R.inst("R9.1", "weak-aggregate:%s" % rootf.npath, same, "Weak::clone copies self.metadata and self.cc: %s (count discipline: weak-clone-table)" % same, where=x.where(), cfg=cfg)
                            continue
                        if not ok and rootf.npath.endswith("new_cyclic"):
                            incs = [y for y in S.calls_to(WCM + "increment_counter") if _record_of(S.args_of(y)[0]) == rec and S.dominates(y, x, exclude=("ui", "u"))]
                            ok = len(incs) == 1
                            R.inst("R9.1", "weak-aggregate:%s" % rootf.npath, ok, "new_cyclic: Weak built after the first increment (from 0, result ignored: cannot overflow) of the fresh record: %s" % ok, where=x.where(), cfg=cfg)
                            continue
                        R.inst("R9.1", "weak-aggregate:%s" % rootf.npath, ok, "Weak{metadata: %s} built under %s; required Ok edge of weak increment_counter on that record" % (fmt(md)[:80], lits_str(lits)[:300]), where=x.where(), cfg=cfg)
    R.floor("R9.1/aggregates", cfg, 4, k)
    own = owners_of_calls(P, lambda c: c["npath"] == WCM + "increment_counter")
    exp = {"<weak::Weak<T> as std::clone::Clone>::clone", "weak::<impl cc::Cc<T>>::downgrade", "weak::<impl cc::Cc<T>>::new_cyclic"}
    R.inst("R9.1", "who-increments-weak", set(own) == exp, "weak increment_counter called from %s" % sorted(own), cfg=cfg)
    own = owners_of_calls(P, lambda c: c["npath"] == WCM + "decrement_counter")
    R.inst("R9.1", "who-decrements-weak", set(own) == {"<weak::Weak<T> as std::ops::Drop>::drop"}, "weak decrement_counter called from %s" % sorted(own), cfg=cfg)
    own = owners_of_calls(P, lambda c: c["npath"] == WCM + "set_accessible")
    R.inst("R9.1", "who-sets-accessible", set(own) == {CCBOX + "drop_metadata"}, "set_accessible called from %s" % sorted(own), cfg=cfg)
    wf = [(f, ty) for (f, bb, ci, ty, adt) in c07.forget_sites(F, P) if type_head(ty) == "weak::Weak"]
    R.inst("R9.1", "no-weak-forget", not wf, "mem::forget/ManuallyDrop::new on a Weak: %s" % ([f.npath for f, _ in wf] or "none"), cfg=cfg)
    wadt = adt_of_type(F, "weak::weak_counter_marker::WeakCounterMarker")
    priv = wadt is not None and all(fl["vis"] not in ("pub", "crate") for fl in wadt["variants"][0]["fields"])
    R.inst("R9.1", "weak-counter-field-private", priv, "WeakCounterMarker's cell is private: %s" % priv, cfg=cfg, nontrivial=False)
    # clone: one increment iff record
    cl = anchor(F, "<weak::Weak<T> as std::clone::Clone>::clone")
    S = Super(P, cl, opaque=(DO - {cl.npath}) | {"weak::Weak::<T>::weak_counter_marker"})
    bad = []
    ps = tables.normal_paths(S)
    for p in ps:
        some = None
        for a, t in p.literals:
            if a[0] == "discr" and is_self_record_opt(a[1]):
                some = t in (("is", 1), ("not", 0))
        kinc = len(p.calls(WCM + "increment_counter"))
        if some is None or kinc != (1 if some else 0):
            bad.append("%d increments, record=%s" % (kinc, some))
        if some and not any(a[0] == "bool" and "is_err" in fmt(a[1]) and "increment_counter" in fmt(a[1]) and t is False for a, t in p.literals):
            bad.append("returns a Weak although the increment's Err edge was not excluded")
    R.inst("R9.1", "weak-clone-table", not bad and len(ps) == 2, "Weak::clone: one weak increment iff a record exists: %s" % (bad or "yes"), where=cl.span, cfg=cfg)

    # ---- R9.2 getters ----------------------------------------------------------------------------------------------
    R.doc("R9.2", "Weak::weak_count = map_or(0, counter) over the record; Cc::weak_count = record counter under has_allocated_for_metadata, else 0")
    ww = anchor(F, "weak::Weak::<T>::weak_count")
    S = Super(P, ww, opaque=(DO - {ww.npath}) | {"weak::Weak::<T>::weak_counter_marker"})
    ps = tables.normal_paths(S)
    ok = False
    det = ""
    for p in ps:
        rv = strip(p.retval())
        det = fmt(rv)
        if rv[0] == "call" and rv[1] == "std::option::Option::<T>::map_or" and rv[2][1] == ("const", 0):
            v = tables.closure_value(S, rv[2][2])
            ok = v is not None and strip(v)[0] == "call" and strip(v)[1] == WCM + "counter" and "cbarg" in fmt(v) and is_self_record_opt(rv[2][0])
    R.inst("R9.2", "weak-weak_count", ok, "Weak::weak_count() = %s" % det[:160], where=ww.span, cfg=cfg)
    cw = anchor(F, "weak::<impl cc::Cc<T>>::weak_count")
    S = Super(P, cw, opaque=DO - {cw.npath})
    bad = []
    ps = tables.normal_paths(S)
    for p in ps:
        has = None
        for a, t in p.literals:
            if a[0] == "bool" and getter_of(a[1])[0] == CM + "has_allocated_for_metadata":
                has = t
        rv = strip(p.retval())
        if has is True and not (rv[0] == "call" and rv[1] == WCM + "counter" and ("get_metadata_unchecked" in fmt(rv) or ".boxed_metadata" in fmt(rv)) and "self.inner" in fmt(rv)):   # the record of self's own box: through the unchecked accessor or the union field itself
            bad.append("record present -> %s" % fmt(rv)[:80])
        if has is False and rv != ("const", 0):
            bad.append("no record -> %s" % fmt(rv)[:80])
        if has is None:
            bad.append("path without the flag literal")
    R.inst("R9.2", "cc-weak_count", not bad and len(ps) == 2, "Cc::weak_count: %s" % (bad or "record counter iff has_allocated_for_metadata, else 0"), where=cw.span, cfg=cfg)

    # ---- R9.4 get_or_init_metadata --------------------------------------------------------------------------------------
    R.doc("R9.4", "get_or_init_metadata: allocation only under !has_allocated_for_metadata; BoxedMetadata::new receives the inline vtable; the pointer is stored before the flag is set; returns the stored/new pointer")
    gm = anchor(F, CCBOX + "get_or_init_metadata")
    S = Super(P, gm, opaque=DO - {gm.npath})
    news = S.calls_to("cc::BoxedMetadata::new")
    for n in news:
        lits = S.literals_at(n, exclude=("ui", "u"))
        a = S.args_of(n)
        vt_ok = "metadata" in fmt(a[0]) and fmt(a[0]).endswith(".vtable")
        wcm_ok = strip(a[1])[0] in ("ret", "call") and strip(a[1])[1] == WCM + "new" and strip(a[1])[2][0] == ("const", 1)
        sets = [x for x in S.calls_to("std::cell::Cell::<T>::set") if S.dominates(n, x, exclude=("ui", "u"))]
        flag = [x for x in S.calls_to(CM + "set_allocated_for_metadata") if S.args_of(x)[1] == ("const", 1)]
        order = bool(sets) and bool(flag) and all(any(S.dominates(s_, fl, exclude=("ui", "u")) for s_ in sets) for fl in flag)
        stored = any("BoxedMetadata::new" in fmt(S.args_of(s_)[1]) or "new(" in fmt(S.args_of(s_)[1]) for s_ in sets)
        ok = has_lit(lits, CM + "has_allocated_for_metadata", False) and vt_ok and wcm_ok and order and stored
        R.inst("R9.4", "init-metadata", ok, "BoxedMetadata::new(%s, %s) under %s; vtable copied=%s; accessible record with count 0=%s; pointer stored before the flag=%s" % (fmt(a[0])[:60], fmt(a[1])[:40], lits_str(lits), vt_ok, wcm_ok, order and stored), where=n.where(), cfg=cfg)
    R.floor("R9.4", cfg, 1, len(news))
    bad = []
    for p in tables.normal_paths(S):
        has = None
        for a, t in p.literals:
            if a[0] == "bool" and getter_of(a[1])[0] == CM + "has_allocated_for_metadata":
                has = t
        rv = fmt(strip(p.retval()))
        if has is True and not rv.endswith("boxed_metadata"):
            bad.append("existing record -> returns %s" % rv[:80])
        if has is False and "BoxedMetadata" not in rv and "new(" not in rv:
            bad.append("fresh record -> returns %s" % rv[:80])
        if has is True and (p.calls("cc::BoxedMetadata::new") or p.calls(CM + "set_allocated_for_metadata")):
            bad.append("existing record re-initialised")
    R.inst("R9.4", "get-or-init-table", not bad, "get_or_init_metadata result table: %s" % (bad or "existing record returned as is; fresh one allocated, stored, flagged, returned"), where=gm.span, cfg=cfg)
    own = owners_of_calls(P, lambda c: c["npath"] == CM + "set_allocated_for_metadata")
    R.inst("R9.4", "who-sets-record-bit", set(own) == {CCBOX + "get_or_init_metadata"}, "set_allocated_for_metadata called from %s" % sorted(own), cfg=cfg)
    bm = anchor(F, "cc::BoxedMetadata::new")
    S = Super(P, bm, opaque=DO - {bm.npath})
    al = S.calls_to("utils::alloc_other")
    wr = S.calls_to("std::ptr::write")
    ok = len(al) == 1 and len(wr) == 1 and strip(S.args_of(wr[0])[0]) == strip(("ret", "utils::alloc_other", (), "cc::BoxedMetadata::new:bb%d" % al[0].bb)) or (len(al) == 1 and len(wr) == 1 and "alloc_other" in fmt(S.args_of(wr[0])[0]))
    R.inst("R9.4", "boxed-metadata-new", ok, "BoxedMetadata::new writes its arguments into the alloc_other::<BoxedMetadata>() block: %s" % ok, where=bm.span, cfg=cfg)

    # ---- R9.5 constants ---------------------------------------------------------------------------------------------------------
    R.doc("R9.5", "weak counter constants: MAX = COUNTER_MASK = 32767, ACCESSIBLE_MASK = 32768, disjoint; initial values")
    _L = word_layout(F)   # read from the using functions: counter() mask, increment limit, is_accessible() flag, values new() stores
    mx, cm_, am, wi = _L["WMAX"], _L["WCMASK"], _L["AM"], _L["WINIT"] or []
    ok = mx == 32767 and cm_ == 32767 and am == 32768 and (cm_ & am) == 0 and (cm_ | am) == 0xFFFF and set(wi) == {0, am}
    R.inst("R9.5", "weak-constants", ok, "limit=%s counter mask=%s accessible flag=%s initial values=%s" % (mx, cm_, am, wi), cfg=cfg, nontrivial=False)


def _record_of(e):
    """Identity of the side record an expression designates."""
    e = strip(e)
    changed = True
    while changed:
        changed = False
        if isinstance(e, tuple) and e:
            if e[0] == "field" and e[2] in ("weak_counter_marker", "0"):
                e = strip(e[1])
                changed = True
            elif e[0] == "as":
                e = strip(e[1])
                changed = True
            elif e[0] == "agg" and e[2].endswith("Option::Some") and e[3]:
                e = strip(e[3][0])
                changed = True
            elif e[0] in ("ref", "deref"):
                e = strip(e)
                changed = True
    return e


def _weak_inc_ok(lits, rec):
    for a, t in lits:
        if a[0] == "bool" and t is False:
            e = strip(a[1])
            if isinstance(e, tuple) and e[0] == "call" and e[1].endswith("is_err"):
                inner = strip(e[2][0])
                if isinstance(inner, tuple) and inner[0] == "ret" and inner[1] == WCM + "increment_counter" and _record_of(inner[2][0]) == rec:
                    return True
    return False


def _clone_ok(S):
    return False
