"""C16 - Reference counts saturate with a panic instead of wrapping."""
from engine.graph import Super, fmt, strip, U_KINDS
from engine import tables
from .common import *

LEVEL = "other"
EXPLANATION = ("Decided on evaluated constants and MIR facts: (R16.1) strong MAX = 16382 = COUNTER_MASK-1 (the reserved all-ones value is unreachable by counting), weak MAX = 32767, "
               "the count/flag masks of each word are pairwise disjoint and the four mark values lie inside the mark bits; (R16.2) in every increment_*/decrement_* the +-1 store is dominated by "
               "count != MAX / != 0 on the same cell and the other edge returns Err without any store (path table); (R16.3) bit footprints: every store to the two counter cells and the "
               "weak cell changes only bits of its own field (symbolic evaluation of the stored expression against the evaluated masks); (R16.4) error discipline: every caller of a fallible "
               "increment outside the marker modules branches on the result, and the Err edge reaches only a diverging panic with no state change and before any pointer is "
               "constructed; ignored results are a closed allow-list with reasons. Not decided: the object's later life after the panic (follows from `count unchanged`).")

M16 = 0xFFFF


def check(R, F, P, cfg):
    weak = F.has("weak-ptrs")
    fin = F.has("finalization")

    # ---- R16.1 constants -----------------------------------------------------------------------------------
    R.doc("R16.1", "evaluated constants of the two counter words")
    # the layout is read from the functions that use it (the mask a getter ANDs with, the limit an increment compares with, the value a
    # constructor stores); the constants' names are labels and may change
    L = word_layout(F)
    CMASK, FB, BM, MAX = L["CMASK"], L["FB"], L["BM"], L["MAX"]
    FM = L["FM"] if L["FM"] is not None else (max(L["INIT"]) & ~1 if L["INIT"] else None)   # without `finalization` no getter reads the bit: the constructor's flagged initial value
    ok = None not in (CMASK, FB, FM, BM, MAX) and CMASK == 16383 and MAX == 16382 and MAX == CMASK - 1 and (CMASK & FB) == 0 and (CMASK & FM) == 0 and (FB & FM) == 0 and (CMASK | FB | FM) == M16 and BM == (~CMASK & M16)
    R.inst("R16.1", "strong-constants", ok, "counter mask (CounterMarker::counter)=%s limit (increment_counter)=%s high flag (is_in_list_or_queue)=%s finalized flag (is_finalized / constructor)=%s mark mask (is_in_possible_cycles)=%s" % (CMASK, MAX, FB, FM, BM), cfg=cfg)
    if weak:
        R.inst("R16.1", "metadata-flag", L["MB"] == FB, "has_allocated_for_metadata tests %s of the strong word (the bit outside counter and finalized flag: %s)" % (L["MB"], FB), cfg=cfg)
    mk = adt_of_type(F, "counter_marker::Mark")
    marks = sorted(d["val"] for d in mk.get("discriminants", [])) if mk else []
    okm = ok and len(set(marks)) == 4 and all((m & ~BM & M16) == 0 for m in marks) and 0 in marks
    R.inst("R16.1", "mark-values", okm, "enum Mark discriminants %s are four distinct values inside the mark mask %s, one of them 0" % (marks, BM), cfg=cfg)
    mg = L["marks_by_getter"]
    used = [v for v in mg.values() if v is not None]
    R.inst("R16.1", "mark-enum-discriminants", len(used) >= 2 and len(set(used)) == len(used) and all(v in marks and v != 0 for v in used), "mark values the getters compare with %s are distinct non-zero discriminants of Mark %s" % (mg, marks), cfg=cfg)
    init = L["INIT"] or []
    R.inst("R16.1", "initial-values", ok and set(init) == {1, 1 | FM}, "new_with_counter_to_one stores %s (required count 1 with mark 0, and 1 | finalized flag)" % init, cfg=cfg, nontrivial=False)
    if weak:
        okw = L["WMAX"] == 32767 and L["WCMASK"] == 32767 and L["AM"] == 32768 and set(L["WINIT"] or []) == {0, 32768}
        R.inst("R16.1", "weak-constants", okw, "weak limit (increment_counter)=%s counter mask (counter)=%s accessible flag (is_accessible)=%s initial values (new)=%s" % (L["WMAX"], L["WCMASK"], L["AM"], L["WINIT"]), cfg=cfg)

    # ---- R16.2 guarded arithmetic ------------------------------------------------------------------------------
    R.doc("R16.2", "per increment/decrement function: paths with `count == limit` return Err and store nothing; the others store load(cell)+-1 to the cell the getter reads, once, and return Ok")
    fns = [(CM + "increment_counter", CM + "counter", "counter", "Add", MAX), (CM + "decrement_counter", CM + "counter", "counter", "Sub", 0),
           (CM + "increment_tracing_counter", CM + "tracing_counter", "tracing_counter", "Add", MAX), (CM + "_decrement_tracing_counter", CM + "tracing_counter", "tracing_counter", "Sub", 0)]
    if weak:
        fns += [(WCM + "increment_counter", WCM + "counter", "weak_counter", "Add", 32767), (WCM + "decrement_counter", WCM + "counter", "weak_counter", "Sub", 0)]
    getters_checked = set()
    for (fname, getter, cell, op, limit) in fns:
        f = F.fn(fname)
        if f is None:
            if fname.endswith("_decrement_tracing_counter"):
                continue
            raise AnchorMissing(fname)
        S = Super(P, f, opaque={getter, "utils::cold"})
        ps = tables.normal_paths(S)
        bad = []
        kinds_seen = set()
        for p in ps:
            at_limit = None
            for a, t in p.literals:
                if a[0] == "cmp" and a[1] == "Eq" and getter_of(a[2])[0] == getter and a[3] == ("const", limit):
                    at_limit = t
            kinds_seen.add(at_limit)
            sets = [x for x in p.events if x.ci["k"] == "call" and x.ci["npath"].startswith("std::cell::Cell::<T>::set")]
            others = [x for x in effect_calls(p.events) if x not in sets]
            rv = p.retval()
            is_err = isinstance(rv, tuple) and rv[0] == "agg" and rv[2].endswith("Result::Err")
            is_ok = isinstance(rv, tuple) and rv[0] == "agg" and rv[2].endswith("Result::Ok")
            if at_limit is None:
                bad.append("path without the limit test: %s" % p.describe()[:80])
            elif at_limit:
                if sets or others or not is_err:
                    bad.append("at the limit: stores=%d returns %s" % (len(sets), fmt(rv)[:40]))
            else:
                if len(sets) != 1 or others or not is_ok:
                    bad.append("below the limit: stores=%d returns %s" % (len(sets), fmt(rv)[:40]))
                else:
                    a = S.args_of(sets[0])
                    tgt = fmt(strip(a[0]))
                    val = a[1]
                    okv = tgt.endswith("self." + cell) and _is_pm1(val, op, cell)
                    if not okv:
                        bad.append("stores %s into %s (required load(self.%s) %s 1 into self.%s)" % (fmt(val), tgt, cell, "+" if op == "Add" else "-", cell))
        R.inst("R16.2", "guarded:%s" % short(fname), not bad and kinds_seen == {True, False}, "%s: %d paths; %s" % (short(fname), len(ps), bad or "Err without store at the limit %s, single +-1 store and Ok otherwise" % limit), where=f.span, cfg=cfg)
        # the getter reads that same cell masked with the count mask
        if getter not in getters_checked:
            getters_checked.add(getter)
            g = anchor(F, getter)
            Sg = Super(P, g, opaque=set())
            gp = tables.normal_paths(Sg)
            mask = 32767 if getter.startswith(WCM) else CMASK
            okg = bool(gp) and all(_is_masked_load(p.retval(), cell, mask) for p in gp)
            R.inst("R16.2", "getter:%s" % short(getter), okg, "%s returns %s (required load(self.%s) & %s)" % (short(getter), fmt(gp[0].retval()) if gp else "?", cell, mask), where=g.span, cfg=cfg)

    # ---- R16.3 bit footprints --------------------------------------------------------------------------------------
    R.doc("R16.3", "every Cell::set in the counter-marker modules changes only bits of its own field: mark within BITS_MASK; reset/set_dropped within the tracing count bits; set_finalized within "
                   "FINALIZED_MASK; set_allocated_for_metadata within FIRST_BIT_MASK; +-1 within the count bits; weak set_accessible within ACCESSIBLE_MASK")
    expect = {
        CM + "mark": ("tracing_counter", BM), CM + "reset_tracing_counter": ("tracing_counter", CMASK), CM + "set_dropped": ("tracing_counter", CMASK),
        CM + "increment_counter": ("counter", CMASK), CM + "decrement_counter": ("counter", CMASK),
        CM + "increment_tracing_counter": ("tracing_counter", CMASK), CM + "_decrement_tracing_counter": ("tracing_counter", CMASK),
    }
    if fin:
        expect[CM + "set_finalized"] = ("counter", FM)
    if weak:
        expect[CM + "set_allocated_for_metadata"] = ("counter", FB)
        expect[WCM + "set_accessible"] = ("weak_counter", 32768)
        expect[WCM + "increment_counter"] = ("weak_counter", 32767)
        expect[WCM + "decrement_counter"] = ("weak_counter", 32767)
    mark_vals = marks
    seen = 0
    covered = set()
    for f in F.fns.values():
        if not f.npath.startswith((CM, WCM)) or f.kind == "closure":
            continue
        if f.npath.endswith(("::new", "::new_with_counter_to_one")):
            continue
        S = Super(P, f, opaque={CM + "counter", CM + "tracing_counter", WCM + "counter", "utils::cold"})
        sets = [x for x in S.nodes if x.ci is not None and not x.inlined and x.ci["k"] == "call" and x.ci["npath"].startswith(("std::cell::Cell::<T>::set", "std::cell::Cell::<T>::replace"))]
        if not sets:
            continue
        # shared private helpers (set_bits, a generic stepping helper ...): evaluated at their callers, where they are expanded
        # with the actual masks / closures; their own generic body is skipped
        if f.npath not in expect:
            cs_ = [cf for (cf, _b, _c) in P.callers(f.id) if cf.npath != f.npath]
            if all(cf.npath.startswith((CM, WCM)) for cf in cs_):      # only used inside the marker modules (or, in this configuration, not at all)
                continue
        for x in sets:
            seen += 1
            covered.add(f.npath)
            a = S.args_of(x)
            cellname = fmt(strip(a[0])).split(".")[-1]
            want = expect.get(f.npath)
            if want is None:
                R.inst("R16.3", "footprint:%s" % short(f.npath), False, "unexpected store to a counter cell in %s" % f.npath, where=x.where(), cfg=cfg)
                continue
            fp = footprint(a[1], cellname, mark_vals, S, x)
            ok = fp is not None and (fp & ~want[1] & M16) == 0 and cellname == want[0]
            R.inst("R16.3", "footprint:%s" % short(f.npath), ok, "store %s into self.%s may change bits %s; allowed field: %s bits %s" % (fmt(a[1])[:90], cellname, "?" if fp is None else hex(fp), want[0], hex(want[1])), where=x.where(), cfg=cfg)
    # coverage is counted per storing function (one store site or several is a matter of style): every function of the table that exists stores
    missing = sorted(short(n) for n in expect if F.fn(n) is not None and n not in covered)
    R.inst("R16.3", "footprint-coverage", not missing, "functions of the footprint table without an analysed store: %s" % (missing or "none"), cfg=cfg, nontrivial=False)
    R.floor("R16.3", cfg, 6 + (1 if fin else 0) + (4 if weak else 0), len(covered))
    # no store to these cells outside the modules
    outside = []
    for (f, bb, ci) in P.call_sites(lambda c_: c_["npath"].startswith(("std::cell::Cell::<T>::set", "std::cell::Cell::<T>::replace"))):
        if f.npath.startswith((CM, WCM)):
            continue
        recv = f.blocks[bb]["term"]["callee"].get("substs", [])
        if recv and recv[0] == "u16":
            outside.append(f.npath)
    R.inst("R16.3", "no-outside-store", not outside, "Cell<u16> stores outside the marker modules: %s" % (outside or "none"), cfg=cfg, nontrivial=False)

    flag_roundtrip(R, F, P, cfg)

    # ---- R16.4 error discipline ------------------------------------------------------------------------------------------
    R.doc("R16.4", "callers of a fallible increment outside the marker modules: the Err edge leads only to a diverging panic, no effect in between, and the pointer aggregate is built on the Ok edge only; "
                   "ignored results: new_cyclic (count 0 -> 1 cannot overflow), tracing-counter increments and decrements checked by debug_assert only (cannot under/overflow by R1.* invariants)")
    DO = default_opaque(F)
    must_check = {"<cc::Cc<T> as std::clone::Clone>::clone": CM + "increment_counter"}
    if weak:
        must_check.update({"weak::Weak::<T>::upgrade": CM + "increment_counter", "<weak::Weak<T> as std::clone::Clone>::clone": WCM + "increment_counter", "weak::<impl cc::Cc<T>>::downgrade": WCM + "increment_counter"})
    allowed_ignore = {("weak::<impl cc::Cc<T>>::new_cyclic", CM + "increment_counter"), ("weak::<impl cc::Cc<T>>::new_cyclic", WCM + "increment_counter"), ("weak::<impl cc::Cc<T>>::new_cyclic", CM + "decrement_counter"),
                      (CCBOX0 + "trace", CM + "increment_tracing_counter"), ("<cc::Cc<T> as std::ops::Drop>::drop", CM + "decrement_counter"), ("<weak::Weak<T> as std::ops::Drop>::drop", WCM + "decrement_counter")}
    k = 0
    for (f, bb, ci) in P.call_sites(lambda c_: c_["npath"] in (CM + "increment_counter", WCM + "increment_counter", CM + "decrement_counter", WCM + "decrement_counter", CM + "increment_tracing_counter")):
        if root_of(P, f).npath.startswith((CM, WCM)):
            continue
        k += 1
        # a private helper holding the call is analysed from the functions that call it (it is expanded there)
        for rootf in [F.fn(o) for o in sorted(lift_owner(P, f)) if F.fn(o) is not None]:
          S = Super(P, rootf, opaque=DO - {rootf.npath})
          for x in [y for y in S.calls_to(ci["npath"]) if y.ctx.fn is f and y.bb == bb]:
              res = ("ret", ci["npath"], S.args_of(x), "%s:bb%d" % (f.npath, bb))
              # switches on is_err/is_ok of this result
              sws = [y for y in S.nodes if y.kind == "switch" and _tests_result(S.switch_expr(y), res) and not _debug_only(y)]
              if not sws:
                  ok = (rootf.npath, ci["npath"]) in allowed_ignore
                  R.inst("R16.4", "result:%s:%s" % (rootf.npath, short(ci["npath"])), ok, "result of %s in %s is not branched on; %s" % (short(ci["npath"]), rootf.npath, "allow-listed" if ok else "NOT in the allow-list"), where=x.where(), cfg=cfg, nontrivial=not ok)
                  continue
              for sw in sws:
                  e = S.switch_expr(sw)
                  err_edges = []
                  for (s_, lab) in sw.succ:
                      if not isinstance(lab, tuple):
                          continue
                      is_err_test = "is_err" in fmt(e)
                      truth = (lab[1] == "otherwise")
                      if (is_err_test and truth) or (not is_err_test and not truth):
                          err_edges.append(s_)
                  bad = []
                  for s_ in err_edges:
                      reach = S.reachable(s_, exclude=("ui", "u"))
                      if any(S.nodes[i].kind == "return" and S.nodes[i].ctx is S.root_ctx for i in reach):
                          bad.append("Err edge can return normally")
                      effs = [S.nodes[i] for i in reach if S.nodes[i].ci is not None and not S.nodes[i].inlined and S.nodes[i] in effect_calls([S.nodes[i]])]
                      if effs:
                          bad.append("effects on the Err edge: %s" % [short(y.ci["npath"]) for y in effs[:3]])
                  R.inst("R16.4", "result:%s:%s" % (rootf.npath, short(ci["npath"])), not bad and bool(err_edges), "Err edge of %s in %s: %s" % (short(ci["npath"]), rootf.npath, bad or "diverges with no effect"), where=sw.where(), cfg=cfg)
    R.floor("R16.4", cfg, 3, k)
    for rn, callee in must_check.items():
        f = anchor(F, rn)
        S = Super(P, f, opaque=DO - {rn})
        sws = [y for y in S.nodes if y.kind == "switch" and "is_err" in fmt(S.switch_expr(y)) and callee.split("::")[-1] in fmt(S.switch_expr(y)) and callee in repr(S.switch_expr(y))]
        R.inst("R16.4", "must-branch:%s" % rn, bool(sws), "%s branches on the result of %s: %s" % (rn, short(callee), bool(sws)), where=f.span, cfg=cfg)


def _tests_result(e, res):
    e = strip(e)
    if isinstance(e, tuple) and e and e[0] == "call" and e[1].endswith(("Result::<T, E>::is_err", "Result::<T, E>::is_ok")) and e[2]:
        inner = strip(e[2][0])
        return inner == res
    return False


def _debug_only(sw):
    t = sw.term
    return any("debug_assert" in x for x in t.get("exp", []))


def _is_pm1(val, op, cell):
    s = repr(val)
    return (("'%sWithOverflow'" % op) in s or ("'%s'" % op) in s) and repr(("const", 1)) in s and "'load'" in s and ("'%s'" % cell) in s


def _is_masked_load(e, cell, mask):
    e = strip(e)
    return isinstance(e, tuple) and e[0] == "bin" and e[1] == "BitAnd" and repr(("const", mask)) in repr(e) and "'load'" in repr(e) and ("'%s'" % cell) in repr(e)


def footprint(val, cell, mark_vals, S, node):
    """Bits in which `val` may differ from load(self.<cell>); None if the expression is not understood."""
    def is_load(e):
        e = strip(e)
        return isinstance(e, tuple) and e and e[0] == "load" and fmt(strip(e[1])).endswith("." + cell) or (isinstance(e, tuple) and e and e[0] == "load" and cell in fmt(e))

    def fp(e):
        e = strip(e)
        if is_load(e):
            return 0
        if isinstance(e, tuple) and e and e[0] == "phi":
            # `cell.set(if c { a } else { b })`: every merged definition must stay inside the field
            vs = S.phi_values(e)
            if not vs or any(_mentions_phi(v, e) for v in vs):
                return None
            r = 0
            for v in vs:
                f_ = fp(v)
                if f_ is None:
                    return None
                r |= f_
            return r
        if isinstance(e, tuple) and e and e[0] == "field" and e[2] == "0":
            return fp(e[1])    # (x op y).0 of a checked arithmetic pair
        if isinstance(e, tuple) and e and e[0] == "bin":
            op, a, b = e[1], e[2], e[3]
            if op == "BitOr":
                fa = fp(a) if not _const(a) else None
                fb = fp(b) if not _const(b) else None
                if _const(b) is not None and fa is not None:
                    return fa | _const(b)
                if _const(a) is not None and fb is not None:
                    return fb | _const(a)
                # load-derived | mark value (enum cast)
                if fa is not None and _is_mark_cast(b):
                    return fa | _or_all(mark_vals)
                if fb is not None and _is_mark_cast(a):
                    return fb | _or_all(mark_vals)
                if fa is not None and fb is not None:
                    return fa | fb
                return None
            if op == "BitAnd":
                if _const(b) is not None and fp(a) is not None:
                    return fp(a) | (~_const(b) & M16)
                if _const(a) is not None and fp(b) is not None:
                    return fp(b) | (~_const(a) & M16)
                return None
            if op in ("AddWithOverflow", "SubWithOverflow", "Add", "Sub") and _const(b) == 1 and fp(a) == 0:
                # +-1 under the dominating guard `count != limit`: stays inside the count field (R16.2 checks the guard)
                mask = 32767 if cell == "weak_counter" else 16383
                return mask
        return None
    return fp(val)


def _mentions_phi(v, phi):
    if isinstance(v, tuple):
        if v == phi:
            return True
        return any(_mentions_phi(x, phi) for x in v)
    return False


def _const(e):
    e = strip(e)
    if isinstance(e, tuple) and e and e[0] == "const" and isinstance(e[1], int):
        return e[1]
    if isinstance(e, tuple) and e and e[0] == "un" and e[1] == "Not":
        c = _const(e[2])
        return None if c is None else (~c & M16)
    return None


def _is_mark_cast(e):
    e = strip(e)
    s = fmt(e)
    return "new_mark" in s or "discr(" in s or "Mark" in s


def _or_all(vs):
    r = 0
    for v in vs:
        r |= v
    return r


# ---- R16.5: setter / getter agreement on the flag bits (known-bits abstract interpretation) --------------------------------------

def _kb_const(c):
    return (M16, c & M16)


def _kb(e, loadv):
    """Known-bits value (known mask, bits) of a u16 expression in which every `load(cell)` has the abstract value loadv."""
    e = strip(e)
    if isinstance(e, tuple) and e:
        if e[0] == "const" and isinstance(e[1], int):
            return _kb_const(e[1])
        if e[0] == "load":
            return loadv
        if e[0] == "un" and e[1] == "Not":
            k, b = _kb(e[2], loadv)
            return (k, ~b & k & M16)
        if e[0] == "bin" and e[1] in ("BitOr", "BitAnd"):
            (ka, ba), (kb, bb) = _kb(e[2], loadv), _kb(e[3], loadv)
            if e[1] == "BitOr":
                ones = (ka & ba) | (kb & bb)
                zeros = (ka & ~ba) & (kb & ~bb)
            else:
                ones = (ka & ba) & (kb & bb)
                zeros = (ka & ~ba) | (kb & ~bb)
            return ((ones | zeros) & M16, ones & M16)
    return (0, 0)


def _kb_pred(e, loadv):
    """True / False / None (unknown) for a getter's result `(.. ) == c`, `!= c` over known bits."""
    e = strip(e)
    if isinstance(e, tuple) and e and e[0] == "bin" and e[1] in ("Eq", "Ne"):
        (ka, ba), (kb, bb) = _kb(e[2], loadv), _kb(e[3], loadv)
        both = ka & kb
        differ = both & (ba ^ bb)
        if differ:
            r = False
        elif ka == M16 and kb == M16:
            r = True
        else:
            return None
        return r if e[1] == "Eq" else (not r)
    if isinstance(e, tuple) and e and e[0] == "un" and e[1] == "Not":
        r = _kb_pred(e[2], loadv)
        return None if r is None else (not r)
    return None


def flag_roundtrip(R, F, P, cfg):
    R.doc("R16.5", "setter/getter agreement, by known-bits abstract interpretation of both bodies: after set_X(true) the getter of X is definitely true (all the bits it tests are set), after set_X(false) definitely false, whatever the rest of the word holds")
    pairs = [(CM + "set_dropped", CM + "is_dropped", True, "weak-ptrs"), (CM + "set_finalized", CM + "needs_finalization", False, "finalization"),
             (CM + "set_allocated_for_metadata", CM + "has_allocated_for_metadata", True, "weak-ptrs"), (WCM + "set_accessible", WCM + "is_accessible", True, "weak-ptrs")]
    k = 0
    for (setter, getter, pos, feat) in pairs:
        if feat and not F.has(feat):
            continue
        sf, gf = F.fn(setter), F.fn(getter)
        if sf is None or gf is None:
            R.inst("R16.5", "roundtrip:%s" % short(setter), False, "%s / %s not found" % (setter, getter), cfg=cfg)
            continue
        Sg = Super(P, gf, opaque=set())
        gvals = [tables.SymExec(Sg, p.path).retval for p in tables.normal_paths(Sg)]
        Ss = Super(P, sf, opaque=set())
        probs = []
        seen = set()
        for p in tables.normal_paths(Ss):
            X = tables.SymExec(Ss, p.path)
            arg = None
            for a, t in X.literals:
                if a[0] == "bool" and strip(a[1])[:1] == ("param",) and t in (True, False):
                    arg = t
            stores = [(tgt, val) for (tgt, val, n) in X.stores if "counter" in fmt(strip(tgt))]
            if arg is None or len(stores) != 1:
                probs.append("path [%s]: flag argument %s, %d store(s)" % (p.describe()[:60], arg, len(stores)))
                continue
            seen.add(arg)
            stored = _kb(stores[0][1], (0, 0))
            for gv in gvals:
                r = _kb_pred(gv, stored)
                want = (arg if pos else (not arg))
                if r is not want:
                    probs.append("after %s(%s) the word is %s (known mask %#x, bits %#x): %s() = %s is %s, must be %s" % (short(setter), str(arg).lower(), fmt(stores[0][1])[:50], stored[0], stored[1], short(getter), fmt(gv)[:60], {True: "true", False: "false", None: "not determined"}[r], str(want).lower()))
        k += 1
        R.inst("R16.5", "roundtrip:%s" % short(setter), not probs and seen == {True, False} and len(gvals) == 1, "%s vs %s: %s" % (short(setter), short(getter), probs[:2] or "set(true) => getter %s, set(false) => getter %s, for every value of the other bits" % (pos, not pos)), where=sf.span, cfg=cfg)
    if F.has("weak-ptrs") or F.has("finalization"):
        R.floor("R16.5", cfg, 1, k)
