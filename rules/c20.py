"""C20 - Cc is a transparent, stable, correctly aligned pointer to its value."""
from engine.graph import Super, fmt, strip, U_KINDS
from engine import tables
from .common import *

LEVEL = "proof"
TRUSTED_BASE = ["rustc MIR construction and trait resolution", "Layout::new::<CcBox<T>>() yields size/alignment of CcBox<T>, and a typed field of a repr(C) struct is aligned for its type (language guarantee)",
                "the ccfacts driver and the provenance resolver of the rule engine"]
EXPLANATION = ("Obligations = forwarding methods and address paths, each decided on the generic MIR body (valid for every T): (R20.1) each of eq, cmp, partial_cmp, lt, le, gt, ge, hash, "
               "Debug::fmt, Display::fmt contains exactly one call into T's code, to the *same* method of the same trait, whose Cc-typed arguments are the derefs of the parameters in "
               "order (other parameters unchanged) and whose result is returned unmodified; default() = Cc::new(T::default()); (R20.2) deref/as_ref/borrow all resolve to the address "
               "of the `elem` field of the box `self.inner` points to, `inner` is never assigned after construction and boxes are never reallocated (R1.1/R11.1), so one address per "
               "object for its whole life; ptr_eq compares the two `inner` addresses and nothing else; (R20.3) the allocation uses Layout::new::<CcBox<T>>() (R3.1) and `elem` is a "
               "typed field of the repr(C) CcBox<T>, hence aligned for every T including zero-sized and over-aligned types.")

FORWARD = [
    ("<cc::Cc<T> as std::cmp::PartialEq>::eq", "std::cmp::PartialEq::eq", 2),
    ("<cc::Cc<T> as std::cmp::Ord>::cmp", "std::cmp::Ord::cmp", 2),
    ("<cc::Cc<T> as std::cmp::PartialOrd>::partial_cmp", "std::cmp::PartialOrd::partial_cmp", 2),
    ("<cc::Cc<T> as std::cmp::PartialOrd>::lt", "std::cmp::PartialOrd::lt", 2),
    ("<cc::Cc<T> as std::cmp::PartialOrd>::le", "std::cmp::PartialOrd::le", 2),
    ("<cc::Cc<T> as std::cmp::PartialOrd>::gt", "std::cmp::PartialOrd::gt", 2),
    ("<cc::Cc<T> as std::cmp::PartialOrd>::ge", "std::cmp::PartialOrd::ge", 2),
    ("<cc::Cc<T> as std::hash::Hash>::hash", "std::hash::Hash::hash", 1),
    ("<cc::Cc<T> as std::fmt::Debug>::fmt", "std::fmt::Debug::fmt", 1),
    ("<cc::Cc<T> as std::fmt::Display>::fmt", "std::fmt::Display::fmt", 1),
]


def check(R, F, P, cfg):
    DO = default_opaque(F) | {"<cc::Cc<T> as std::ops::Deref>::deref"}
    R.doc("R20.1", "forwarding shape of the 10 comparison/hash/format methods and of default()")
    for (fname, callee, n_cc) in FORWARD:
        f = anchor(F, fname)
        S = Super(P, f, opaque=DO)
        ps = tables.normal_paths(S)
        user = [n for n in S.call_nodes() if n.ci["k"] == "call" and n.ci["kind"] == "usite"]
        probs = []
        if len(ps) != 1:
            probs.append("%d paths (must be 1)" % len(ps))
        if len(user) != 1:
            probs.append("%d calls into T's code (must be 1): %s" % (len(user), [u.ci["npath"] for u in user]))
        else:
            u = user[0]
            if u.ci["npath"] != callee:
                probs.append("forwards to %s, not to %s" % (u.ci["npath"], callee))
            if u.ci["term"]["callee"].get("self_ty") != "T":
                probs.append("callee's Self is %s, not T" % u.ci["term"]["callee"].get("self_ty"))
            args = S.args_of(u)
            for i, a in enumerate(args):
                pname = f.local_name(i + 1)
                if i < n_cc:
                    want = ("ret", "<cc::Cc<T> as std::ops::Deref>::deref")
                    a_ = strip(a)
                    ok = isinstance(a_, tuple) and a_[0] in ("ret", "call") and a_[1] == "<cc::Cc<T> as std::ops::Deref>::deref" and strip(a_[2][0]) == ("param", pname, i + 1)
                    if not ok:
                        probs.append("argument %d is %s (required deref(%s))" % (i, fmt(a), pname))
                else:
                    if strip(a) != ("param", pname, i + 1):
                        probs.append("argument %d is %s (required the parameter %s unchanged)" % (i, fmt(a), pname))
            if len(args) != f.arg_count:
                probs.append("argument count %d != parameter count %d" % (len(args), f.arg_count))
            rv = ps[0].retval() if ps else None
            if fname.endswith("::hash"):
                if not (isinstance(rv, tuple) and rv[0] == "const"):
                    probs.append("hash returns %s" % fmt(rv))
            else:
                site = "%s:bb%d" % (u.ctx.fn.npath, u.bb)
                if not (isinstance(rv, tuple) and rv[0] in ("ret", "call") and rv[1] == callee):
                    probs.append("returns %s, not the callee's result unmodified" % fmt(rv))
        others = [n.ci["npath"] for n in S.call_nodes() if n.ci["k"] == "call" and n not in user and n.ci["npath"] != "<cc::Cc<T> as std::ops::Deref>::deref" and n.ci["npath"] not in graph_transparent()]
        if others:
            probs.append("other calls in the body: %s" % others)
        R.inst("R20.1", "forward:%s" % fname, not probs, "%s: %s" % (fname, probs or "one call to %s(deref(params) in order), result returned unmodified" % callee), where=f.span, cfg=cfg)
    df = anchor(F, "<cc::Cc<T> as std::default::Default>::default")
    S = Super(P, df, opaque=DO)
    ps = tables.normal_paths(S)
    rv = ps[0].retval() if len(ps) == 1 else None
    ok = isinstance(rv, tuple) and rv[0] == "ret" and rv[1] == "cc::Cc::<T>::new" and strip(rv[2][0])[0] in ("ret", "call") and strip(rv[2][0])[1] == "std::default::Default::default"
    R.inst("R20.1", "default", ok, "Cc::default() = %s" % fmt(rv), where=df.span, cfg=cfg)

    # ---- R20.2 -------------------------------------------------------------------------------------------------
    R.doc("R20.2", "deref/as_ref/borrow resolve to the address of `(*self.inner).elem`; Cc.inner never assigned; ptr_eq compares the inner pointers")
    DO2 = default_opaque(F)
    d = anchor(F, "<cc::Cc<T> as std::ops::Deref>::deref")
    S = Super(P, d, opaque=DO2 - {d.npath})
    ps = tables.normal_paths(S)
    vals = {fmt(strip(p.retval())) for p in ps}
    R.inst("R20.2", "deref-address", vals == {"*self.inner.elem"}, "Cc::deref returns the address of %s on every path (required (*self.inner).elem)" % sorted(vals), where=d.span, cfg=cfg)
    for fname in ("<cc::Cc<T> as std::convert::AsRef<T>>::as_ref", "<cc::Cc<T> as std::borrow::Borrow<T>>::borrow"):
        f = anchor(F, fname)
        S = Super(P, f, opaque=DO2 | {d.npath})
        ps = tables.normal_paths(S)
        rv = strip(ps[0].retval()) if len(ps) == 1 else None
        ok = isinstance(rv, tuple) and rv[0] in ("ret", "call") and rv[1] == d.npath and strip(rv[2][0]) == ("param", "self", 1)
        R.inst("R20.2", "same-as-deref:%s" % fname, ok, "%s returns %s (required deref(self))" % (fname, fmt(rv)), where=f.span, cfg=cfg)
    # Cc.inner never written after construction
    wr = []
    for g in F.fns.values():
        for b in g.blocks:
            for s in b["stmts"]:
                if s["k"] == "assign":
                    for e in s["place"]["p"]:
                        if isinstance(e, dict) and e.get("n") == "inner" and e.get("bt", "").startswith("cc::Cc<"):
                            wr.append(g.npath)
    R.inst("R20.2", "inner-never-assigned", not wr, "assignments to Cc.inner outside aggregate construction: %s" % (wr or "none"), cfg=cfg)
    pe = anchor(F, "cc::Cc::<T>::ptr_eq")
    S = Super(P, pe, opaque=DO2)
    ps = tables.normal_paths(S)
    rv = strip(ps[0].retval()) if len(ps) == 1 else None
    ok = isinstance(rv, tuple) and rv[0] in ("ret", "call") and rv[1] == "std::ptr::eq" and {fmt(strip(a)).lstrip("&*") for a in rv[2]} == {"this.inner", "other.inner"}
    R.inst("R20.2", "ptr_eq", ok, "ptr_eq = %s (required ptr::eq(this.inner, other.inner))" % fmt(rv), where=pe.span, cfg=cfg)
    if F.has("weak-ptrs"):
        wpe = anchor(F, "weak::Weak::<T>::ptr_eq")
        S = Super(P, wpe, opaque=DO2)
        bad = []
        for p in tables.normal_paths(S):
            rv = strip(p.retval())
            both = sum(1 for a, t in p.literals if a[0] == "discr" and t in (("is", 1), ("not", 0)))
            none = sum(1 for a, t in p.literals if a[0] == "discr" and t in (("is", 0), ("not", 1)))
            if both == 2 and not (rv[0] in ("ret", "call") and rv[1] == "std::ptr::eq"):
                bad.append("both records present -> %s" % fmt(rv))
            if none == 2 and rv != ("const", 1):
                bad.append("both without record -> %s" % fmt(rv))
            if both == 1 and none == 1 and rv != ("const", 0):
                bad.append("one record only -> %s" % fmt(rv))
        R.inst("R20.2", "weak-ptr_eq", not bad, "Weak::ptr_eq table: %s" % (bad or "records compared by address; two record-less Weaks equal; mixed unequal"), where=wpe.span, cfg=cfg)

    # ---- R20.3 alignment ------------------------------------------------------------------------------------------
    R.doc("R20.3", "allocation layout is Layout::new::<CcBox<T>>() and `elem: UnsafeCell<T>` is a typed (last) field of the repr(C), non-packed CcBox<T>")
    ccbox = adt_of_type(F, "cc::CcBox")
    last = ccbox["variants"][0]["fields"][-1]
    ok = ccbox["repr_c"] and not ccbox["repr_packed"] and last["name"] == "elem" and last["ty"] == "std::cell::UnsafeCell<T>"
    R.inst("R20.3", "elem-typed-field", ok, "CcBox: repr(C)=%s packed=%s last field %s: %s" % (ccbox["repr_c"], ccbox["repr_packed"], last["name"], last["ty"]), cfg=cfg)
    nb = anchor(F, CCBOX + "new")
    S = Super(P, nb, opaque=DO2 - {nb.npath})
    al = S.calls_to("utils::cc_alloc")
    ok = len(al) == 1
    if ok:
        a = S.args_of(al[0])[0]
        ok = isinstance(a, tuple) and a[0] == "call" and a[1] == "std::alloc::Layout::new" and len(a) > 3 and a[3] == ("cc::CcBox<T>",)
    R.inst("R20.3", "alloc-layout-of-ccbox", ok, "cc_alloc receives Layout::new::<cc::CcBox<T>>(): %s" % ok, where=nb.span, cfg=cfg)
    ge = anchor(F, CCBOX + "get_elem")
    S = Super(P, ge, opaque=set())
    ps = tables.normal_paths(S)
    vals = {fmt(strip(p.retval())) for p in ps}
    R.inst("R20.3", "get_elem-address", vals == {"*self.elem"}, "CcBox::get_elem returns the address of %s" % sorted(vals), where=ge.span, cfg=cfg)


def graph_transparent():
    from engine import graph
    return graph.TRANSPARENT
