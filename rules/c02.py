"""C02 - Unreachable cycles are completely reclaimed by collect_cycles()."""
from engine.graph import Super, fmt, strip, U_KINDS
from engine import tables
from .common import *
from . import c01

LEVEL = "other"
EXPLANATION = ("Structural necessary conditions of completeness on the MIR facts: (R2.1) every normal path of Cc::drop that neither frees nor finds the object collector-owned "
               "decrements and then buffers it (incl. the resurrected-by-finalizer path); (R2.2) add_to_list really links and marks (shared with R1.6); (R2.3) collect runs __collect "
               "while the buffer is non-empty, leaving its loop early only when it is empty, with a constant pass bound >= 1; collect_cycles/collect are reached as documented; "
               "(R2.4) the finalization fold and both passes of deallocate_list iterate the whole non-root list from its head and act on every element unconditionally; "
               "(R2.5) after a finalizing pass the whole set is re-buffered with consistent sizes (role propagation on the two usize arguments). "
               "Not decided: that some member of every garbage component is buffered when the collection runs (an invariant over histories; argued in DESIGN).")


def check(R, F, P, cfg):
    fin = F.has("finalization")
    DO = default_opaque(F)

    # ---- R2.1 ---------------------------------------------------------------------------------------------
    R.doc("R2.1", "every normal path of Cc::drop either frees the box, or sees is_in_list_or_queue()==true, or calls decrement_counter and then add_to_list on self")
    dr = anchor(F, "<cc::Cc<T> as std::ops::Drop>::drop")
    S = Super(P, dr, opaque=DO - {dr.npath})
    paths = tables.normal_paths(S, limit=20000)
    bad = []
    nbuf = 0
    for p in paths:
        freed = p.calls("utils::cc_dealloc")
        inlq = any(a[0] == "bool" and getter_of(a[1])[0] == CM + "is_in_list_or_queue" and t is True for a, t in p.literals)
        if freed or inlq:
            continue
        nbuf += 1
        ev = [x.ci["npath"] for x in p.events if x.ci["k"] == "call"]
        ok = CM + "decrement_counter" in ev and "cc::add_to_list" in ev and ev.index(CM + "decrement_counter") < ev.index("cc::add_to_list")
        if ok:
            a = [x for x in p.calls("cc::add_to_list")][0]
            d = [x for x in p.calls(CM + "decrement_counter")][0]
            ok = obj_of(S.args_of(a)[0]) == obj_of(S.args_of(d)[0])
        if not ok:
            bad.append(p.describe()[:160])
    R.inst("R2.1", "buffer-on-nonfinal-drop", not bad and nbuf >= (2 if fin else 1), "%d of %d normal paths of Cc::drop are non-final drops; each decrements then buffers self: %s" % (nbuf, len(paths), bad or "yes"), where=dr.span, cfg=cfg)

    # ---- R2.2 add_to_list links and marks ---------------------------------------------------------------------
    R.doc("R2.2", "add_to_list, when the object is not yet buffered, calls pc.add and marks it PossibleCycles on every path on which the buffer is accessible")
    atl = anchor(F, "cc::add_to_list")
    S = Super(P, atl, opaque=DO - {atl.npath})
    bad = []
    k = 0
    for p in tables.normal_paths(S):
        notin = any(a[0] == "bool" and getter_of(a[1])[0] == CM + "is_in_possible_cycles" and t is False for a, t in p.literals)
        skipped = any(lab == "skip" for (_, lab) in p.path)
        if not notin or skipped:
            continue
        k += 1
        adds = p.calls(PC + "add")
        marks = [x for x in p.calls(CM + "mark") if mark_of(S.args_of(x)[1]) == "PossibleCycles"]
        if len(adds) != 1 or len(marks) != 1:
            bad.append(p.describe()[:120])
    R.inst("R2.2", "add_to_list-links-and-marks", not bad and k >= 1, "%d buffering paths of add_to_list; each calls pc.add once and mark(PossibleCycles) once: %s" % (k, bad or "yes"), where=atl.span, cfg=cfg)

    # ---- R2.3 whole buffer processed ----------------------------------------------------------------------------
    R.doc("R2.3", "trace_counting drains the buffer (R1.5); collect calls __collect in a loop that is left early only on possible_cycles.is_empty(); the pass bound is a constant >= 1; "
                  "without `finalization`: one call guarded by !is_empty()")
    col = anchor(F, "collect")
    S = Super(P, col, opaque=DO - {"collect"})
    calls = S.calls_to("__collect")
    for n in calls:
        lits = S.literals_at(n, exclude=("ui", "u"))
        ok = has_lit(lits, PC + "is_empty", False)
        only = [(a, t) for a, t in lits if a[0] == "bool" and getter_of(a[1])[0] not in (PC + "is_empty",) and not _is_state_check(a)]
        R.inst("R2.3", "collect-guard", ok, "__collect is called under %s; required: exactly !possible_cycles.is_empty() (plus the loop condition)" % lits_str(lits), where=n.where(), cfg=cfg)
        if fin:
            R.inst("R2.3", "collect-loop", on_cycle(S, n, exclude=("ui", "u")), "__collect is called inside a loop: %s" % on_cycle(S, n, exclude=("ui", "u")), where=n.where(), cfg=cfg)
    R.floor("R2.3", cfg, 1, len(calls))
    if fin:
        # the loop is driven by a constant range: find Range aggregate
        rng = []
        for x in S.nodes:
            for s in x.stmts:
                if s["k"] == "assign" and s["rv"]["k"] == "agg" and s["rv"].get("adt", "").endswith("ops::Range"):
                    rng.append([S.resolve_op(x.ctx, o) for o in s["rv"]["ops"]])
        ok = len(rng) == 1 and rng[0][0] == ("const", 0) and rng[0][1][0] == "const" and isinstance(rng[0][1][1], int) and rng[0][1][1] >= 1
        R.inst("R2.3", "pass-bound-constant", ok, "collect's loop iterates over the constant range %s (bound must be a constant >= 1; any such value satisfies the property, which allows repeated collect_cycles calls)" % ([[fmt(a) for a in r] for r in rng]), where=col.span, cfg=cfg)
        R.notes["pass_bound[%s]" % cfg] = rng[0][1][1] if ok else None
    # trace_counting drains the buffer: shared with C01 R1.5 (evaluated here for the buffer only)
    tc = anchor(F, "trace_counting")
    S = Super(P, tc, opaque=DO - {"trace_counting"})
    pn = [x for x in S.calls_to(PC + "remove_first") if x.ctx is S.root_ctx and not x.is_cleanup]
    calls = [y for y in S.calls_to("__trace_counting") if c01._popped_from(S.args_of(y)[0], PC + "remove_first")]
    ok = bool(pn) and all(cycle_must_pass(S, x, lambda y: y in calls) for x in pn)
    exits_ok = all(any(a[0] == "discr" and t in (("is", 0), ("not", 1)) and strip(a[1])[0] == "ret" and strip(a[1])[1] == PC + "remove_first" for a, t in S.literals_at(r, exclude=("ui", "u"))) for r in S.returns)
    R.inst("R2.3", "buffer-drained", ok and exits_ok, "trace_counting pops the buffer in a loop handing each object to __trace_counting=%s; returns only after the buffer's None exit=%s" % (ok, exits_ok), where=tc.span, cfg=cfg)
    # collect_cycles reaches collect whenever not collecting (and the buffer/state are accessible)
    cc_ = anchor(F, "collect_cycles")
    S = Super(P, cc_, opaque=DO - {"collect_cycles"})
    bad = []
    k = 0
    for p in tables.normal_paths(S):
        collecting = any(a[0] == "bool" and getter_of(a[1])[0] == ST + "is_collecting" and t is True for a, t in p.literals)
        skipped = any(lab == "skip" for (_, lab) in p.path)
        if collecting or skipped:
            continue
        k += 1
        if len(p.calls("collect")) != 1:
            bad.append(p.describe()[:100])
    R.inst("R2.3", "collect_cycles-calls-collect", not bad and k >= 1, "collect_cycles: %d path(s) outside a collection, each calls collect exactly once: %s" % (k, bad or "yes"), where=cc_.span, cfg=cfg)

    # ---- R2.4 whole non-root set handled -----------------------------------------------------------------------------
    R.doc("R2.4", "the finalization fold and both for_each passes of deallocate_list iterate `list.iter()` and execute finalize_inner / drop_inner / (layout, cc_dealloc) on every path of their closure body")
    checks = [("deallocate_list", CCBOX0 + "drop_inner"), ("deallocate_list", "utils::cc_dealloc")]
    if fin:
        checks.append(("__collect", CCBOX0 + "finalize_inner"))
    for fname, callee in checks:
        f = anchor(F, fname)
        S = Super(P, f, opaque=DO - {fname})
        ns = S.calls_to(callee)
        for n in ns:
            ic = iteration_context(S, n)
            if ic is None:
                R.inst("R2.4", "whole-list:%s:%s" % (fname, short(callee)), False, "%s is not executed once per element of `list.iter()` (neither in a for_each/fold closure nor in a `for` loop over it)" % short(callee), where=n.where(), cfg=cfg)
                continue
            okk = ic["every"] and ic["whole"] and ic["item_ok"] and ic["list"] is not None
            R.inst("R2.4", "whole-list:%s:%s" % (fname, short(callee)), okk,
                   "%s: on every path of one iteration=%s; %s over %s.iter() without adapters=%s; applied to the iteration item=%s" % (short(callee), ic["every"], ic["kind"], fmt(ic["list"]), ic["whole"], ic["item_ok"]), where=n.where(), cfg=cfg)
        R.floor("R2.4/%s/%s" % (fname, short(callee)), cfg, 1, len(ns))
    # Iter::next yields every node: each Some path advances to the yielded node's own next link (R3.7) and the iterator starts at list.first
    ii = [f for f in F.fns.values() if f.npath == "<&'a lists::LinkedList as std::iter::IntoIterator>::into_iter"]
    for f in ii:
        S = Super(P, f, opaque=DO)
        ps = tables.normal_paths(S)
        rv = ps[0].retval() if ps else None
        ok = isinstance(rv, tuple) and rv[0] == "agg" and "Iter" in rv[2] and fmt(rv[3][0]).endswith("self.first")
        R.inst("R2.4", "iter-starts-at-head", ok, "(&LinkedList).into_iter() = %s (required: next = self.first)" % fmt(rv), where=f.span, cfg=cfg)
    R.floor("R2.4/iter", cfg, 1, len(ii))

    # ---- R2.5 re-buffer after finalizing --------------------------------------------------------------------------------
    if fin:
        R.doc("R2.5", "when the pass finalized something: swap_list(non-root list, n) with n counted unconditionally once per element in the fold, then mark_self_and_append(PossibleCycles, "
                      "that list, old) with old = possible_cycles.size() read before the swap")
        col = anchor(F, "__collect")
        S = Super(P, col, opaque=DO - {"__collect"})
        sw = S.calls_to(PC + "swap_list")
        ma = S.calls_to(PC + "mark_self_and_append")
        dl = S.calls_to("deallocate_list")
        ok = len(sw) == 1 and len(ma) == 1
        if ok:
            lits = S.literals_at(sw[0], exclude=("ui", "u"))
            on_true = any(a[0] == "bool" and is_has_finalized(S, a[1]) and t is True for a, t in lits)
            order = S.dominates(sw[0], ma[0], exclude=("ui", "u"))
            a_sw = S.args_of(sw[0])
            a_ma = S.args_of(ma[0])
            same_list = strip(a_sw[1]) == strip(a_ma[2]) and (not dl or strip(a_sw[1]) == strip(S.args_of(dl[0])[0]))
            mk = mark_of(a_ma[1]) == "PossibleCycles"
            # size arguments
            n_arg = a_sw[2]
            old_arg = strip(a_ma[3])
            size_call = [x for x in S.calls_to(PC + "size") if S.dominates(x, sw[0], exclude=("ui", "u"))]
            old_ok = isinstance(old_arg, tuple) and old_arg[0] == "call" and old_arg[1] == PC + "size" and bool(size_call)
            if not old_ok and isinstance(old_arg, tuple) and old_arg[0] == "ret" and old_arg[1] == PC + "swap_list" and old_arg[3] == "%s:bb%d" % (sw[0].ctx.fn.npath, sw[0].bb):
                # swap_list itself hands back the size it replaced (Cell::replace on self.size)
                slf = anchor(F, PC + "swap_list")
                Ssl = Super(P, slf, opaque=set())
                rvs = {fmt(strip(tables.SymExec(Ssl, p_.path).retval)) for p_ in tables.normal_paths(Ssl)}
                old_ok = bool(rvs) and all(r_.startswith("load(") and r_.rstrip(")").endswith("self.size") for r_ in rvs)
            cnt_ok, cnt_det = _counter_in_fold(S, n_arg)
            ok = on_true and order and same_list and mk and old_ok and cnt_ok
            R.inst("R2.5", "rebuffer", ok, "on has_finalized: swap_list then mark_self_and_append=%s (guard %s); same list=%s; mark=PossibleCycles=%s; old size = pc.size() before the swap=%s; swap size %s: %s" % (
                order, on_true, same_list, mk, old_ok, fmt(n_arg), cnt_det), where=sw[0].where(), cfg=cfg)
        else:
            R.inst("R2.5", "rebuffer", False, "swap_list sites=%d, mark_self_and_append sites=%d in __collect (expected 1 and 1)" % (len(sw), len(ma)), where=col.span, cfg=cfg)
        # every path with has_finalized==true performs both
        bad = []
        for p in tables.normal_paths(S, limit=20000):
            t = None
            for a, tr in p.literals:
                if a[0] == "bool" and is_has_finalized(S, a[1]):
                    t = tr
            if t is True and (len(p.calls(PC + "swap_list")) != 1 or len(p.calls(PC + "mark_self_and_append")) != 1):
                bad.append(p.describe()[:100])
        R.inst("R2.5", "rebuffer-on-every-path", not bad, "paths with has_finalized==true lacking swap_list/mark_self_and_append: %s" % (bad or "none"), where=col.span, cfg=cfg)


def _is_state_check(a):
    return False


def _counter_in_fold(S, n_arg):
    """n_arg must be a `var` local that is incremented by 1 on every iteration of the pass that calls finalize_inner."""
    v = strip(n_arg)
    if not (isinstance(v, tuple) and v and v[0] in ("var", "phi")):
        return False, "not a counter variable updated by the finalization pass"
    fis = S.calls_to(CCBOX0 + "finalize_inner")
    for fi in fis:
        ic = iteration_context(S, fi)
        if ic is None:
            continue

        def incs(x):
            for s in x.stmts:
                if s["k"] == "assign":
                    if s["place"]["p"]:
                        tgt = strip(S.resolve_place(x.ctx, s["place"]))
                    else:
                        tgt = ("loc", x.ctx.id, s["place"]["l"])
                    same = tgt == v or (isinstance(tgt, tuple) and tgt[0] == "loc" and v[1] == tgt[1] and v[2] == tgt[2])
                    if same:
                        val = S.resolve_rv(x.ctx, s["rv"], None)
                        if _is_plus_one(val, v):
                            return True
            return False
        if ic["closure_ctx"] is not None:
            sub = ic["closure_ctx"]
            entry = S.blocks_of[(sub.id, 0)]
            rets = [x for x in S.nodes if x.ctx is sub and x.kind == "return"]
            ok, _ = S.must_pass(entry, incs, rets, exclude=("ui", "u", "loop"))
            if incs(entry):
                ok = True
        else:
            ok = cycle_must_pass(S, ic["pass"], incs)
        if ok:
            return True, "incremented by 1 on every iteration of the finalization pass"
    return False, "no unconditional `+= 1` on it inside the finalization pass"


def _is_plus_one(val, v):
    s = repr(val)
    return ("'AddWithOverflow'" in s or "'Add'" in s) and repr(("const", 1)) in s and repr(v) in s
