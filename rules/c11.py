"""C11 - Introspection counters match reality."""
import re

from engine.graph import Super, fmt, strip, U_KINDS
from engine import tables
from .common import *

LEVEL = "other"
EXPLANATION = ("Structural necessary conditions on the MIR facts: (R11.1) byte accounting only at the allocation points - record_allocation only in cc_alloc, record_deallocation only in "
               "cc_dealloc, each with the very layout handed to alloc/dealloc, as +-layout.size() on allocated_bytes; raw alloc/dealloc only in the four utils functions; "
               "(R11.2) increment_executions_count exactly once on every path of collect and nowhere else; (R11.3) per PossibleCycles method the change of `size` on every path equals the "
               "change in membership (add +1, remove -1, remove_first -1 iff Some, swap_list = argument, mark_self_and_append += argument), first/size written only inside the impl; "
               "(R11.4) the un-buffer site table (mark_alive, clone, downgrade, upgrade, try_unwrap, last-owner drop); (R11.5) sibling agreement: PossibleCycles::{add, remove, "
               "remove_first} perform, path by path, the same link stores as LinkedList's (differing only by size and Cell access). Not decided: the exact buffered-set prediction per history.")


def check(R, F, P, cfg):
    weak = F.has("weak-ptrs")
    fin = F.has("finalization")
    DO = default_opaque(F)

    # ---- R11.1 bytes -------------------------------------------------------------------------------------------
    R.doc("R11.1", "who records; layout identity between the accounting call and the raw allocator call; +-layout.size() on allocated_bytes")
    own = owners_of_calls(P, lambda c: c["npath"] == ST + "record_allocation")
    R.inst("R11.1", "who-records-allocation", set(own) == {"utils::cc_alloc"}, "record_allocation called from %s" % sorted(own), cfg=cfg)
    own = owners_of_calls(P, lambda c: c["npath"] == ST + "record_deallocation")
    R.inst("R11.1", "who-records-deallocation", set(own) == {"utils::cc_dealloc"}, "record_deallocation called from %s" % sorted(own), cfg=cfg)
    for raw in ("std::alloc::alloc", "std::alloc::dealloc", "std::alloc::realloc", "std::alloc::alloc_zeroed"):
        own = owners_of_calls(P, lambda c, raw=raw: c["npath"] == raw)
        allowed = {"std::alloc::alloc": {"utils::cc_alloc", "utils::alloc_other"}, "std::alloc::dealloc": {"utils::cc_dealloc", "utils::dealloc_other"}}.get(raw, set())
        R.inst("R11.1", "raw:%s" % raw, set(own) <= allowed and (bool(own) or not allowed or True), "%s called from %s (allowed %s)" % (raw, sorted(own), sorted(allowed)), cfg=cfg, nontrivial=bool(own))
    if weak:
        for fn_ in ("utils::alloc_other", "utils::dealloc_other"):
            tys = set()
            for (f, bb, ci) in P.call_sites(lambda c, fn_=fn_: c["npath"] == fn_):
                tys.add(ci["term"]["callee"]["substs"][0] if ci["term"]["callee"].get("substs") else "?")
            R.inst("R11.1", "unaccounted-allocator-types:%s" % fn_, tys <= {"cc::BoxedMetadata"} and bool(tys), "%s (which does not touch allocated_bytes) is used for types %s; only the weak side record may bypass the byte accounting - a managed box freed this way is never subtracted" % (fn_, sorted(tys)), cfg=cfg)
    for fname, rec, raw in (("utils::cc_alloc", ST + "record_allocation", "std::alloc::alloc"), ("utils::cc_dealloc", ST + "record_deallocation", "std::alloc::dealloc")):
        f = anchor(F, fname)
        S = Super(P, f, opaque=DO - {fname})
        bad = []
        ps = tables.normal_paths(S)
        for p in ps:
            rs = p.calls(rec)
            rw = p.calls(raw)
            if len(rs) != 1 or len(rw) != 1:
                bad.append("%d accounting / %d allocator calls" % (len(rs), len(rw)))
                continue
            l1 = strip(S.args_of(rs[0])[1])
            l2 = strip(S.args_of(rw[0])[-1])
            if l1 != l2 or l1[0] != "param":
                bad.append("layouts differ: %s vs %s" % (fmt(l1), fmt(l2)))
        R.inst("R11.1", "same-layout:%s" % fname, not bad and ps, "%s: every path calls %s and %s once with its own `layout` parameter: %s" % (fname, short(rec), raw, bad or "yes"), where=f.span, cfg=cfg)
    for fname, op in ((ST + "record_allocation", "Add"), (ST + "record_deallocation", "Sub")):
        f = anchor(F, fname)
        S = Super(P, f, opaque=set())
        sets = [x for x in S.nodes if x.ci is not None and x.ci["k"] == "call" and x.ci["npath"].startswith("std::cell::Cell::<T>::set")]
        ok = len(sets) == 1
        det = "%d stores" % len(sets)
        if ok:
            a = S.args_of(sets[0])
            tgt = fmt(strip(a[0]))
            val = repr(a[1])
            ok = tgt.endswith("self.allocated_bytes") and ("'%sWithOverflow'" % op in val or "'%s'" % op in val) and "'load'" in val and "allocated_bytes" in val and "Layout::size" in val and "'layout'" in val
            det = "allocated_bytes := %s" % fmt(a[1])
        R.inst("R11.1", "delta:%s" % short(fname), ok, "%s: %s (required allocated_bytes %s layout.size())" % (short(fname), det, "+" if op == "Add" else "-"), where=f.span, cfg=cfg)
    own = owners_of_calls(P, lambda c: c["npath"].startswith("std::cell::Cell::<T>::set") and "usize" in c["term"]["callee"].get("substs", [""])[0])
    okset = {ST + "record_allocation", ST + "record_deallocation", ST + "increment_executions_count", PC + "add", PC + "remove", PC + "remove_first", PC + "swap_list", PC + "mark_self_and_append", PC + "reset", "state::reset_state"}
    R.inst("R11.1", "who-writes-usize-cells", set(own) <= okset, "Cell<usize>::set called from %s" % sorted(own), cfg=cfg, nontrivial=False)

    # ---- R11.2 executions count ----------------------------------------------------------------------------------
    R.doc("R11.2", "increment_executions_count: exactly one call on every normal path of collect; no other caller")
    own = owners_of_calls(P, lambda c: c["npath"] == ST + "increment_executions_count")
    R.inst("R11.2", "who-counts-executions", set(own) == {"collect"}, "increment_executions_count called from %s" % sorted(own), cfg=cfg)
    col = anchor(F, "collect")
    S = Super(P, col, opaque=DO - {"collect"})
    inc = S.calls_to(ST + "increment_executions_count")
    ok = len(inc) == 1 and not on_cycle(S, inc[0], exclude=("ui", "u")) and all(S.dominates(inc[0], r, exclude=("ui", "u")) for r in S.returns)
    first = len(inc) == 1 and all(S.dominates(inc[0], x, exclude=("ui", "u")) for x in S.mayU_nodes() if not x.is_cleanup)
    R.inst("R11.2", "once-per-collection", ok and first, "collect: one increment site, outside any loop, dominating every return=%s and every callback=%s" % (ok, first), where=col.span, cfg=cfg)
    f = anchor(F, ST + "increment_executions_count")
    S = Super(P, f, opaque=set())
    sets = [x for x in S.nodes if x.ci is not None and x.ci["k"] == "call" and x.ci["npath"].startswith("std::cell::Cell::<T>::set")]
    ok = len(sets) == 1 and "executions_counter" in fmt(S.args_of(sets[0])[0]) and ("AddWithOverflow 1" in fmt(S.args_of(sets[0])[1]) or "Add 1" in fmt(S.args_of(sets[0])[1])) and "executions_counter" in fmt(S.args_of(sets[0])[1])
    R.inst("R11.2", "delta-executions", ok, "increment_executions_count stores %s" % (fmt(S.args_of(sets[0])[1]) if sets else "?"), where=f.span, cfg=cfg)

    # ---- R11.3 size <-> membership -------------------------------------------------------------------------------------
    R.doc("R11.3", "size delta per path of each PossibleCycles method equals the membership delta")
    specs = [(PC + "add", lambda p: "+1"), (PC + "remove", lambda p: "-1"), (PC + "remove_first", lambda p: "-1" if _returns_some(p) else "0")]
    if fin:
        specs += [(PC + "swap_list", lambda p: "=to_swap_size"), (PC + "mark_self_and_append", lambda p: "+to_append_size")]
    for fname, want in specs:
        f = anchor(F, fname)
        S = Super(P, f, opaque=(DO - {fname}))
        ps = tables.normal_paths(S, max_visits=2)
        bad = []
        for p in ps:
            d = _size_delta(S, p)
            if d != want(p):
                bad.append("size %s on path [%s] (expected %s)" % (d, p.describe()[:80], want(p)))
        R.inst("R11.3", "size:%s" % short(fname), not bad and ps, "%s: %d paths; %s" % (short(fname), len(ps), bad[:3] or "size delta matches membership delta on each"), where=f.span, cfg=cfg)
    # who writes first/size of PossibleCycles
    wr = set()
    for g in F.fns.values():
        for b in g.blocks:
            t = b["term"]
            if t["k"] == "call" and not t["callee"].get("indirect") and t["callee"]["path"].startswith(("core::cell::Cell::<T>::set", "core::cell::Cell::<T>::replace")):
                a0 = t["args"][0]
                if a0["k"] in ("copy", "move"):
                    # resolve cheaply: the receiver local's defining statement mentions a PossibleCycles field
                    pass
        if g.npath.startswith(PC) or g.kind == "closure":
            continue
    pcadt = adt_of_type(F, "lists::PossibleCycles")
    priv = all(fl["vis"] not in ("pub", "crate") for fl in pcadt["variants"][0]["fields"])
    R.inst("R11.3", "pc-fields-private", priv, "PossibleCycles.first/size are private to the lists module: %s" % priv, cfg=cfg, nontrivial=False)
    # within the lists module, only impl PossibleCycles touches them
    touch = set()
    for g in F.fns.values():
        if g.kind == "closure":
            continue
        for b in g.blocks:
            for s in b["stmts"]:
                if s["k"] == "assign":
                    for pl in places_of_rv(s["rv"]) + [s["place"]]:
                        for e in pl["p"]:
                            if isinstance(e, dict) and e.get("n") in ("size", "first") and e.get("bt", "").strip() == "lists::PossibleCycles":
                                touch.add(g.npath)
    extra = {t for t in touch if not (t.startswith(PC) or t.startswith("<lists::PossibleCycles as") or t.startswith("<&'a lists::PossibleCycles as"))}
    R.inst("R11.3", "pc-fields-touched-only-by-impl", not extra, "functions outside impl PossibleCycles touching its fields: %s" % (sorted(extra) or "none"), cfg=cfg)
    sz = anchor(F, PC + "size")
    S = Super(P, sz, opaque=set())
    ps = tables.normal_paths(S)
    R.inst("R11.3", "size-getter", len(ps) == 1 and fmt(strip(ps[0].retval())).endswith("self.size)"), "PossibleCycles::size() = %s" % (fmt(ps[0].retval()) if ps else "?"), cfg=cfg)
    bo = anchor(F, "state::buffered_objects_count")
    S = Super(P, bo, opaque=DO)
    szc = [x for x in S.nodes if x.ci is not None and x.ci["k"] == "call" and x.ci["npath"] == PC + "size"]
    R.inst("R11.3", "buffered_objects_count-forwards", len(szc) == 1, "buffered_objects_count reads PossibleCycles::size(): %d site(s)" % len(szc), where=bo.span, cfg=cfg)

    # ---- R11.6 the public getters forward the thread-local counters ------------------------------------------------
    R.doc("R11.6", "state::allocated_bytes / executions_count / is_tracing return Ok(<the same-named State getter>(state)) of the thread's own STATE and nothing else")
    for pub, getter in (("state::allocated_bytes", ST + "allocated_bytes"), ("state::executions_count", ST + "executions_count"), ("state::is_tracing", ST + "is_tracing")):
        f = anchor(F, pub)
        S = Super(P, f, opaque=DO - {pub})
        ts = [n for n in S.nodes if n.ci is not None and n.ci["k"] == "call" and n.ci["npath"] == "state::try_state"]
        ok = len(ts) == 1
        det = "%d try_state site(s)" % len(ts)
        if ok:
            env = S.args_of(ts[0])[0]
            v = tables.closure_value(S, env)
            v_ = strip(v) if v is not None else None
            # Ok(getter(state)), flattened by `?` - or getter(state) itself when try_state's own Ok is the one returned
            inner_ = strip(v_[3][0]) if isinstance(v_, tuple) and v_ and v_[0] == "agg" and v_[2].endswith("Result::Ok") else v_
            ok = isinstance(inner_, tuple) and inner_ and inner_[0] == "call" and inner_[1] == getter and "cbarg" in fmt(inner_)
            if ok and inner_ is v_:
                # the plain form must return try_state's result unchanged
                rets = {fmt(strip(p_.retval())) for p_ in tables.normal_paths(S)}
                ok = len(rets) == 1 and all(r.startswith("try_state(") for r in rets)
            det = "closure returns %s" % (fmt(v)[:80] if v is not None else "?")
            others = [x.ci["npath"] for x in effect_calls([y for y in S.call_nodes() if y.ci["k"] == "call"])]
            ok = ok and not others
            det += "; other effects: %s" % (others or "none")
        R.inst("R11.6", "getter:%s" % pub, ok, "%s: %s (required Ok(%s(state)))" % (pub, det, short(getter)), where=f.span, cfg=cfg)

    # ---- R11.4 un-buffer sites ----------------------------------------------------------------------------------------------
    R.doc("R11.4", "callers of remove_from_list / mark_alive: the documented un-buffering operations")
    own = set(owners_of_calls(P, lambda c: c["npath"] == "cc::remove_from_list"))
    exp = {"cc::Cc::<T>::mark_alive", "cc::Cc::<T>::try_unwrap", "<cc::Cc<T> as std::ops::Drop>::drop"}
    R.inst("R11.4", "remove_from_list-callers", own == exp, "remove_from_list called from %s (expected %s)" % (sorted(own), sorted(exp)), cfg=cfg)
    own = set(owners_of_calls(P, lambda c: c["npath"] == "cc::Cc::<T>::mark_alive"))
    exp = {"<cc::Cc<T> as std::clone::Clone>::clone"} | ({"weak::Weak::<T>::upgrade", "weak::<impl cc::Cc<T>>::downgrade"} if weak else set())
    R.inst("R11.4", "mark_alive-callers", own == exp, "mark_alive called from %s (expected %s)" % (sorted(own), sorted(exp)), cfg=cfg)
    for o in sorted(exp):
        f = anchor(F, o)
        S = Super(P, f, opaque=DO - {o})
        ps = tables.normal_paths(S)
        # every path that hands out a pointer passes mark_alive
        bad = []
        for p in ps:
            rv = p.retval()
            hands = isinstance(rv, tuple) and rv[0] == "agg" and (rv[2].endswith(("cc::Cc::Cc", "weak::Weak::Weak", "Option::Some")))
            if hands and not p.calls("cc::Cc::<T>::mark_alive"):
                bad.append(p.describe()[:80])
        R.inst("R11.4", "unbuffers:%s" % o, not bad and ps, "%s: every path returning a pointer calls mark_alive: %s" % (o, bad or "yes"), where=f.span, cfg=cfg)
    ma = anchor(F, "cc::Cc::<T>::mark_alive")
    S = Super(P, ma, opaque=DO - {ma.npath})
    rm = S.calls_to("cc::remove_from_list")
    R.inst("R11.4", "mark_alive-unbuffers-self", len(rm) == 1 and fmt(obj_of(S.args_of(rm[0])[0])).endswith("self.inner"), "mark_alive calls remove_from_list(self.inner): %s" % ([fmt(S.args_of(x)[0]) for x in rm]), where=ma.span, cfg=cfg)

    # ---- R11.5 sibling agreement ------------------------------------------------------------------------------------------------
    R.doc("R11.5", "per method and per path condition, PossibleCycles and LinkedList perform the same stores to the link roles (ptr.next, ptr.prev, neighbour links, head)")
    for m in ("add", "remove", "remove_first"):
        a = method_effects(F, P, LL + m)
        b = method_effects(F, P, PC + m)
        ok = a == b and len(a) >= 2
        only_a = sorted(a - b)
        only_b = sorted(b - a)
        R.inst("R11.5", "siblings:%s" % m, ok, "LinkedList::%s vs PossibleCycles::%s: %d path signatures each; only in LinkedList: %s; only in PossibleCycles: %s" % (m, m, len(a), only_a[:2] or "none", only_b[:2] or "none"), cfg=cfg)
    # LinkedQueue::poll vs remove_first on the un-marking and unlinking of the popped element is covered by R7.2


def _returns_some(p):
    rv = p.retval()
    return isinstance(rv, tuple) and rv[0] == "agg" and rv[2].endswith("Option::Some")


def _size_delta(S, p):
    """Net effect on self.size along a path, as a symbolic string."""
    d = 0
    sym = []
    for x in p.events:
        if x.ci["k"] == "call" and x.ci["npath"].startswith(("std::cell::Cell::<T>::set", "std::cell::Cell::<T>::replace")) and fmt(strip(S.args_of(x)[0])).endswith("self.size"):
            v = S.args_of(x)[1]
            s = fmt(v)
            r = repr(v)
            if ("'AddWithOverflow'" in r or "'Add'" in r) and "self" in s and "size" in s and repr(("const", 1)) in r:
                d += 1
            elif ("'SubWithOverflow'" in r or "'Sub'" in r) and "size" in s and repr(("const", 1)) in r:
                d -= 1
            elif ("'AddWithOverflow'" in r or "'Add'" in r) and "size" in s and "'param'" in r:
                m = re.findall(r"\('param', '(\w+)'", r)
                others = [y for y in m if y != "self"]
                sym.append("+" + (others[0] if others else "?"))
            elif strip(v)[0] == "param":
                sym.append("=" + strip(v)[1])
            else:
                sym.append("?" + s[:40])
    if sym:
        return "".join(sym) + ("" if d == 0 else "%+d" % d)
    return "%+d" % d if d else "0"


def method_effects(F, P, fname):
    """Per-path signature (conditions, link stores, marks, result) computed by path-wise symbolic execution."""
    f = anchor(F, fname)
    S = Super(P, f, opaque=set([CM + "mark"]))
    out = set()
    for p in tables.normal_paths(S):
        X = tables.SymExec(S, p.path)
        # conditions on `size` (PossibleCycles only, e.g. a debug assertion `size == 0` on the empty path) are not link-role conditions, like the stores to it below
        lits = sorted(set(_norm(tables.fmt_atom(a)) + "=" + str(t) for a, t in X.literals if "self.size" not in _norm(tables.fmt_atom(a))))
        stores = []
        for (tgt, val, n) in X.stores:
            if any("debug_assert" in e_ for e_ in (n.term.get("exp") or [])):
                pass
            t_ = _norm(fmt(strip(tgt)))
            if t_.endswith(".size"):
                continue
            if not (t_.endswith((".next", ".prev", ".first"))):
                continue
            stores.append("%s := %s" % (t_, _norm(fmt(val))))
        for (n, args) in X.calls:
            if n.ci["npath"] == CM + "mark":
                stores.append("mark(%s, %s)" % (_norm(fmt(obj_of(args[0]))), mark_of(args[1])))
        out.add("[%s] {%s} -> %s" % (" & ".join(lits), "; ".join(stores), _norm(fmt(X.retval))))
    return out


def _norm(s):
    """Erase the Cell-vs-plain-field difference: load(&*self.first) == *self.first; `new_first` local == value read."""
    s = re.sub(r"load\(&\*self\.(\w+)\)", r"*self.\1", s)
    s = s.replace("&*self.", "*self.")
    return s
