"""C19 - Collectors of different threads are independent; thread teardown is safe."""
from engine.graph import Super, fmt, strip, U_KINDS
from engine import tables, witness
from engine.facts import norm_path
from .common import *
from . import c07

LEVEL = "other"
EXPLANATION = ("Type-level non-interference instead of schedule exploration: (R19.1) every `static` of the crate is a thread-local, none is `static mut`, the crate contains no `unsafe impl "
               "Send/Sync`, and the collector's code calls no atomic or lock operation: there is no process-global state; (R19.2) compile-fail witnesses (rustc is the decision procedure; "
               "each with a compiling twin): Cc<T>, Weak<T>, Cleaner, Cleanable and Context are neither Send nor Sync, and Context cannot be built by user code - so no object, "
               "pointer or tracing context can cross threads, hence threads share nothing and are independent under every interleaving; (R19.3) teardown: a thread-local whose "
               "value has a destructor (the buffer) is accessed only through try_with with a non-panicking fallback, thread-locals reached through panicking accessors have types "
               "without destructor (cannot be in the destroyed state), and PossibleCycles::drop drains through its un-marking pop, touching only headers of live objects. "
               "Not decided: absence of crashes for every destructor order is argued from R19.3 + R1.2/R2.2, not executed.")


def check(R, F, P, cfg):
    DO = default_opaque(F)
    # ---- R19.1 -----------------------------------------------------------------------------------------
    R.doc("R19.1", "all statics thread-local and immutable; no unsafe impl Send/Sync; no atomic/lock call in non-test code")
    bad = [s["path"] for s in F.statics if not s["thread_local"] or s["mutable"]]
    R.inst("R19.1", "statics-thread-local", not bad and len(F.statics) >= 2, "%d statics, all #[thread_local] and immutable; offenders: %s" % (len(F.statics), bad or "none"), cfg=cfg)
    si = [(i["trait"], i["self_ty"]) for i in F.impls if i["trait"] and i["trait"].rsplit("::", 1)[-1] in ("Send", "Sync") and not i["negative"]]
    R.inst("R19.1", "no-unsafe-send-sync", not si, "impls of Send/Sync in the crate: %s" % (si or "none"), cfg=cfg)
    at = P.call_sites(lambda c: c["npath"].startswith(("std::sync::atomic::", "std::sync::Mutex", "std::sync::RwLock", "std::sync::Once", "std::sync::mpsc", "std::thread::spawn", "std::sync::Arc")))
    R.inst("R19.1", "no-atomics-or-locks", not at, "atomic/lock/Arc calls in the crate: %s" % ([(f.npath, c["npath"]) for f, _, c in at][:4] or "none"), cfg=cfg)
    # the crate's thread-local keys, by the type parameter of the accessor calls
    keys = {}
    for (f, bb, ci) in P.call_sites(lambda c: c["npath"].startswith("std::thread::LocalKey::<T>::")):
        ce = ci["term"]["callee"]
        t = ce["substs"][0] if ce.get("substs") else "?"
        nd = ce.get("substs_needs_drop", [None])[0]
        keys.setdefault(t, []).append((root_of(P, f).npath, ci["npath"].rsplit("::", 1)[-1], nd, f, bb))
    R.notes["thread_local_keys[%s]" % cfg] = {t: sorted({(a, b) for a, b, _, _, _ in v}) for t, v in keys.items()}

    # ---- R19.3 teardown -----------------------------------------------------------------------------------
    R.doc("R19.3", "LocalKey accessors: `with` (panics on a destroyed key) only on keys whose type has no destructor; results of try_with on a key with destructor are never unwrapped")
    k = 0
    for t, uses in sorted(keys.items()):
        for (owner, acc, nd, f, bb) in uses:
            k += 1
            if acc == "with":
                R.inst("R19.3", "accessor:%s:%s" % (t, owner), nd is False, "%s uses LocalKey<%s>::with (panics if the key is destroyed); the type needs_drop=%s (must be false)" % (owner, t, nd), where="%s bb%d" % (f.npath, bb), cfg=cfg)
            elif acc == "try_with":
                ok, det = True, "try_with on a key without destructor"
                if nd:
                    ok, det = _result_not_unwrapped(P, F, f, bb)
                R.inst("R19.3", "accessor:%s:%s" % (t, owner), ok, "%s uses LocalKey<%s>::try_with (needs_drop=%s): %s" % (owner, t, nd, det), where="%s bb%d" % (f.npath, bb), cfg=cfg)
            else:
                R.inst("R19.3", "accessor:%s:%s" % (t, owner), False, "unexpected LocalKey accessor %s" % acc, where="%s bb%d" % (f.npath, bb), cfg=cfg)
    R.floor("R19.3", cfg, 5, k)
    # state(): panics when STATE is inaccessible - allowed only because State has no destructor
    st = adt_of_type(F, "state::State")
    R.inst("R19.3", "state-no-destructor", st is not None and not st["drop_tree"] and not st["drop_tree_has_param"], "state::State drop tree: %s (must be empty: the panicking accessor `state()` can then never observe a destroyed key)" % (st and st["drop_tree"]), cfg=cfg)
    pc = adt_of_type(F, "lists::PossibleCycles")
    ok, det = c07.container_drains(F, P, pc, PC + "remove_first")
    R.inst("R19.3", "buffer-drop-drains", ok, det, where=pc["span"], cfg=cfg)
    pdrop = P.fns.get(pc["destructor"]) if pc["destructor"] else None
    if pdrop is not None:
        S = Super(P, pdrop, opaque=set())
        touched = set()
        for n in S.call_nodes():
            if n.ci["k"] == "call" and (n.ci["kind"] in ("usite",) or n.ci["npath"].startswith(("utils::cc_dealloc", "std::alloc::dealloc", "std::ptr::drop_in_place"))):
                touched.add(n.ci["npath"])
        R.inst("R19.3", "buffer-drop-touches-headers-only", not touched and not P.fn_mayU(pdrop), "PossibleCycles::drop frees/drops/calls back: %s" % (sorted(touched) or "nothing (links, marks and size only)"), where=pdrop.span, cfg=cfg)
    # add_to_list / remove_from_list fall back silently when the buffer is gone
    for fname in ("cc::add_to_list", "cc::remove_from_list"):
        f = anchor(F, fname)
        S = Super(P, f, opaque=DO - {fname})
        tw = [n for n in S.nodes if n.ci is not None and n.ci["k"] == "call" and n.ci["npath"] == "std::thread::LocalKey::<T>::try_with"]
        div = [n for n in S.call_nodes() if n.ci["k"] == "call" and not n.ci.get("exp") and (n.ci["npath"] in ("std::result::Result::<T, E>::unwrap", "std::result::Result::<T, E>::expect", "std::result::Result::<T, E>::unwrap_err", "std::option::Option::<T>::unwrap", "std::option::Option::<T>::expect") or n.ci["npath"].startswith("std::panicking"))]
        R.inst("R19.3", "fallback:%s" % fname, len(tw) >= 1 and not div, "%s reaches the buffer through try_with (%d site) and has no unwrap/expect/explicit panic: %s" % (fname, len(tw), [d.ci["npath"] for d in div] or "ok"), where=f.span, cfg=cfg)


def _result_not_unwrapped(P, F, f, bb):
    t = f.blocks[bb]["term"]
    dest = t["dest"]["l"]
    users = []
    for bi, b in enumerate(f.blocks):
        tt = b["term"]
        if tt["k"] == "call" and bi != bb:
            for a in tt["args"]:
                if a["k"] in ("copy", "move") and a["place"]["l"] == dest:
                    users.append(tt["callee"].get("path", "?"))
    dep = _panic_depends_on(P, f, dest)
    if dep:
        return False, "a panic is control-dependent on the result of try_with: %s" % dep
    return True, "result ignored or given a default (%s); no branch on a value derived from it leads only to a panic" % (users or "ignored")


SAFE_CONSUMERS = ("Result::<T, E>::unwrap_or", "Result::<T, E>::is_ok", "Result::<T, E>::is_err", "Result::<T, E>::ok", "Result::<T, E>::err", "Result::<T, E>::unwrap_or_default",
                  "Option::<T>::is_some", "Option::<T>::is_none", "Option::<T>::unwrap_or", "std::mem::drop", "std::ops::Not::not")
PANICKING = ("std::result::Result::<T, E>::unwrap", "std::result::Result::<T, E>::expect", "std::result::Result::<T, E>::unwrap_err", "std::result::Result::<T, E>::expect_err",
             "std::option::Option::<T>::unwrap", "std::option::Option::<T>::expect")


def _may_panic_explicitly(P, fn):
    S = Super(P, fn, opaque=default_opaque(P.F) - {fn.npath})
    return sorted({n.ci["npath"] for n in S.nodes if n.ci is not None and n.ci["k"] == "call" and (n.ci["npath"] in PANICKING or n.ci["npath"].startswith("std::panicking") or (n.ci["diverges"] and "panic" in n.ci["npath"]))})


def _panic_depends_on(P, f, local):
    """Branches of `f` on a value derived from `local` (flow-insensitive taint over assignments and call results) one of
    whose targets cannot reach `return`: the failure of the access would be turned into a panic."""
    taint = {local}
    defaulted = {}       # local -> the constant an access failure turns into (`.unwrap_or(<const>)`): only that value is the failure case
    changed = True
    while changed:
        changed = False
        for b in f.blocks:
            for st in b["stmts"]:
                if st["k"] == "assign" and st["place"]["l"] not in taint and any(pl["l"] in taint for pl in places_of_rv(st["rv"])):
                    taint.add(st["place"]["l"]); changed = True
                    rv = st["rv"]
                    if rv["k"] == "use" and rv["op"]["k"] in ("copy", "move") and not rv["op"]["place"]["p"] and rv["op"]["place"]["l"] in defaulted and not st["place"]["p"]:
                        defaulted[st["place"]["l"]] = defaulted[rv["op"]["place"]["l"]]
                    if rv["k"] == "un" and rv["op"] == "Not" and rv["a"]["k"] in ("copy", "move") and not rv["a"]["place"]["p"] and rv["a"]["place"]["l"] in defaulted and not st["place"]["p"] and defaulted[rv["a"]["place"]["l"]] in (0, 1):
                        defaulted[st["place"]["l"]] = 1 - defaulted[rv["a"]["place"]["l"]]
            t = b["term"]
            if t["k"] == "call" and t.get("dest") and t["dest"]["l"] not in taint and any(a["k"] in ("copy", "move") and a["place"]["l"] in taint for a in t["args"]):
                taint.add(t["dest"]["l"]); changed = True
                cp = norm_path(t["callee"].get("path", "")) if not t["callee"].get("indirect") else ""
                if cp.endswith("Result::<T, E>::unwrap_or") and len(t["args"]) == 2 and t["args"][1]["k"] == "const" and isinstance(t["args"][1].get("val"), int) and not t["dest"]["p"]:
                    defaulted[t["dest"]["l"]] = t["args"][1]["val"]
    # blocks from which `return` is reachable along normal (non-unwind) edges
    def nsucc(t):
        k = t["k"]
        if k == "goto":
            return [t["target"]]
        if k == "switch":
            return [tb for _, tb in t["targets"]] + [t["otherwise"]]
        if k in ("call", "drop", "assert"):
            return [t["target"]] if t.get("target") is not None else []
        return []
    preds = {}
    for bi, b in enumerate(f.blocks):
        for tgt in nsucc(b["term"]):
            preds.setdefault(tgt, set()).add(bi)
    can = {bi for bi, b in enumerate(f.blocks) if b["term"]["k"] == "return"}
    work = list(can)
    while work:
        x = work.pop()
        for p_ in preds.get(x, ()):
            if p_ not in can:
                can.add(p_); work.append(p_)
    out = []
    # calls that receive a derived value: consumers that cannot panic, or combinators whose closure / local callee cannot
    for bi, b in enumerate(f.blocks):
        t = b["term"]
        if t["k"] != "call" or not any(a["k"] in ("copy", "move") and a["place"]["l"] in taint for a in t["args"]):
            continue
        ci = P.classify(f, bi)
        np = ci["npath"]
        if np in PANICKING:
            out.append("bb%d: %s on a value derived from the result" % (bi, np))
            continue
        if np.endswith(SAFE_CONSUMERS):
            continue
        bodies = list(ci.get("closures") or [])
        bodies += [x.id for x in ci.get("targets") or []]
        for fid in bodies:
            g = P.fns.get(fid)
            if g is not None:
                pn = _may_panic_explicitly(P, g)
                if pn:
                    out.append("bb%d: the value flows into %s whose callee %s can panic (%s)" % (bi, np, g.npath, pn[:2]))
    for bi, b in enumerate(f.blocks):
        t = b["term"]
        if t["k"] == "switch":
            op = t["op"]
        elif t["k"] == "assert":
            op = t["cond"]
        else:
            continue
        if op.get("k") in ("copy", "move") and op["place"]["l"] in taint:
            if t["k"] == "assert":
                out.append("bb%d assert" % bi)
                continue
            if t["k"] == "switch" and not op["place"]["p"] and op["place"]["l"] in defaulted:
                # only the default value stands for a failed access: its edge must return; the other edges test the closure's own result
                c_ = defaulted[op["place"]["l"]]
                hit = [tb for v_, tb in t["targets"] if v_ == c_] or [t["otherwise"]]
                if any(tb not in can for tb in hit):
                    out.append("bb%d: the edge taken when the access failed (value %s) never returns" % (bi, c_))
                continue
            dead = sorted({tgt for tgt in nsucc(t) if tgt not in can})
            if dead and bi in can:
                out.append("bb%d: target(s) bb%s never return" % (bi, dead))
    return out


# ---- global part: witnesses ------------------------------------------------------------------------------

PRELUDE = """#![allow(unused)]
extern crate rust_cc;
fn is_send<T: Send>() {}
fn is_sync<T: Sync>() {}
"""


def witnesses():
    ws = []
    for ty, twin in (("rust_cc::Cc<u32>", "std::boxed::Box<u32>"), ("rust_cc::weak::Weak<u32>", "std::boxed::Box<u32>"), ("rust_cc::cleaners::Cleaner", "std::boxed::Box<u32>"),
                     ("rust_cc::cleaners::Cleanable", "std::boxed::Box<u32>"), ("rust_cc::Context<'static>", "std::boxed::Box<u32>"), ("rust_cc::Cc<std::sync::Arc<std::sync::Mutex<u8>>>", "std::sync::Arc<std::sync::Mutex<u8>>")):
        for tr in ("send", "sync"):
            ws.append(witness.Witness("%s-not-%s" % (ty, tr), PRELUDE + "fn probe() {\n    is_%s::<%s>(); //~ E0277\n}\n" % (tr, ty),
                                      "    is_%s::<%s>();" % (tr, twin), "%s must not be %s" % (ty, tr.capitalize())))
    ws.append(witness.Witness("cc-cannot-be-sent-to-thread", PRELUDE + "fn probe() {\n    let c = rust_cc::Cc::new(1u32);\n    std::thread::spawn(move || { let _x = &c; }); //~ E0277\n}\n",
                              "    std::thread::spawn(move || { let _x = 1; }); let _ = &c;", "a Cc cannot be moved into another thread"))
    ws.append(witness.Witness("context-not-constructible", PRELUDE + "fn probe(l: rust_cc::Context<'static>) {\n    let c = rust_cc::Context { ..l }; //~ E0451\n}\n",
                              "    let c = l;", "user code cannot build a tracing Context"))
    ws.append(witness.Witness("context-new-private", PRELUDE + "fn probe() {\n    let _ = rust_cc::Context::new; //~ E0624\n}\n",
                              "    let _ = 0;", "Context::new is not callable by user code"))
    ws.append(witness.Witness("state-not-nameable", PRELUDE + "fn probe() {\n    let _ = rust_cc::state::state::<()>; //~ E0603\n}\n",
                              "    let _ = rust_cc::state::is_tracing;", "the collector state accessor is private to the crate"))
    return ws


def check_global(R, tier, seed):
    R.doc("R19.2", "compile-fail witnesses with compiling twins (rustc decides): the pointer and context types are !Send and !Sync; Context is not constructible; collector state is not nameable")
    d, err = witness.ensure_libs(("std", "auto-collect", "finalization", "weak-ptrs", "cleaners"))   # no derive: no proc-macro build needed
    if d is None:
        R.inst("R19.2", "witness-build", False, "building the rlib for the witnesses failed:\n" + (err or ""), nontrivial=False)
        return
    from concurrent.futures import ThreadPoolExecutor
    _ws = list(witnesses())
    with ThreadPoolExecutor(max_workers=8) as _ex:       # independent rustc type-checks
        _res = list(_ex.map(lambda w_: w_.run(d), _ws))
    for w, (ok, det) in zip(_ws, _res):
        R.inst("R19.2", "witness:%s" % w.name, ok, "%s: %s" % (w.what, det), cfg="all-features")
    R.floor("R19.2", "all-features", 14, sum(1 for i in R.instances if i["rule"] == "R19.2"))
