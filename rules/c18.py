"""C18 - derive(Trace) traces every non-ignored field once and forbids custom Drop."""
import re
from engine.graph import Super, Program, fmt, strip, U_KINDS
from engine import tables, witness, derivegrid, build
from engine.facts import Facts, norm_path
from .common import *

LEVEL = "other"
EXPLANATION = ("(R18.1) derive grid: a generated probe crate of structs (unit/tuple/named, 0..8 fields, every ignore mask up to 3 (quick) / 4 (thorough) fields, sampled with VERIF_SEED above), "
               "enums with 1..4 variants of mixed kinds with ignored variants and fields, generic parameters and nested std containers is expanded by the real proc-macro; the MIR of every "
               "generated `trace` is compared with the probe's own field list: per variant arm exactly the non-ignored fields, once each, receiver = that field's projection; ignored "
               "fields have a non-Trace type so that tracing them could not even compile; derived Finalize impls have no `finalize` item. (R18.2) control flow of the macro itself "
               "(rust_cc_derive's MIR, valid for all inputs): the Drop impl is generated and appended on every path except under no_drop, no_drop = any(attr_contains(_, "
               "\"unsafe_no_drop\")) over the item's attributes, field and variant filters are !any(attr_contains(_, \"ignore\")), variants are filtered only for enums. "
               "(R18.3) compile-fail witnesses with compiling twins: derive(Trace) + a user Drop impl is E0119 for a struct and for an enum, compiles with #[rust_cc(unsafe_no_drop)]; "
               "a traced field whose type is not Trace is E0277. The grid is a finite sample (level `other`); R18.2/R18.3 are for-all statements.")


def check(R, F, P, cfg):
    # the library side: the derive feature only re-exports the macros (checked on the all-features facts of the witnesses' build)
    R.inst("R18.0", "library-config", True, "library configuration %s analysed by the other properties; C18's own checks run once per invocation (global part)" % cfg, cfg=cfg, nontrivial=False)


def check_global(R, tier, seed):
    grid(R, tier, seed)
    macro_control_flow(R)
    drop_witnesses(R)


# ---- R18.1 ---------------------------------------------------------------------------------------------------

def grid(R, tier, seed):
    R.doc("R18.1", "per probe type and variant: calls in the generated trace == non-ignored fields, once each, on that field's projection; derived Finalize has an empty body")
    probes = derivegrid.generate(tier, seed)
    F, log = derivegrid.build_grid(probes)
    if F is None:
        R.inst("R18.1", "grid-build", False, "the probe crate does not compile with the current derive macro (an ignored field was traced, a bound is missing, ...):\n" + log[-1500:], nontrivial=False)
        return
    P = Program(F)
    by_self = {}
    for f in F.fns.values():
        if f.impl_of and f.impl_of.get("trait") and f.impl_of["trait"].endswith("rust_cc::Trace") and f.npath.endswith("::trace"):
            by_self[f.impl_of["self_ty"].split("<")[0]] = f
    leaf_fns = {g.npath for g in F.fns.values() if (g.impl_of and g.impl_of.get("self_ty") in ("L", "Shadow")) or g.npath.startswith("Shadow::")}
    n = 0
    for pr in probes:
        f = by_self.get(pr.name)
        if f is None:
            R.inst("R18.1", "probe:%s" % pr.name, False, "no generated Trace impl found for probe\n%s" % pr.source(), cfg="grid")
            continue
        S = Super(P, f, opaque=leaf_fns)
        paths = tables.normal_paths(S, limit=5000)
        exp = pr.expected()
        seen_variants = {}
        probs = []
        for p in paths:
            X = tables.SymExec(S, p.path)
            calls = []
            for (nd, args) in X.calls:
                ce = nd.ci["term"]["callee"]
                if not ce.get("indirect") and ce.get("name") == "trace" and (ce.get("trait") or "").endswith("rust_cc::Trace"):
                    calls.append(fmt(strip(args[0])))
            vname = "S"
            if pr.kind == "enum":
                vname = None
                for a, t in X.literals:
                    if a[0] == "discr" and isinstance(t, tuple) and t[0] == "is":
                        vname = "V%d" % t[1] if t[1] < len(pr.variants) else None
                    elif a[0] == "discr" and isinstance(t, tuple) and t[0] == "not" and len(pr.variants) == 2:
                        vname = "V%d" % (1 - t[1])
                if vname is None and len(pr.variants) == 1:
                    vname = "V0"
                # the macro may merge all call-free variants into one wildcard arm
                if vname is None and not calls:
                    continue
            got = sorted(_field_of(c, vname, pr.kind) for c in calls)
            seen_variants[vname] = got
            if vname not in exp:
                probs.append("path for unknown variant %s: %s" % (vname, calls))
            elif got != exp[vname]:
                probs.append("variant %s traces fields %s, expected %s (calls: %s)" % (vname, got, exp[vname], calls))
        for vn, fields in exp.items():
            if fields and vn not in seen_variants:
                probs.append("variant %s (traced fields %s) has no arm in the generated trace" % (vn, fields))
        n += 1
        R.inst("R18.1", "probe:%s" % _shape(pr), not probs, "%s\n  -> %s" % (pr.source().replace("\n", " "), probs or "generated trace visits exactly the non-ignored fields, once each"), cfg="grid", nontrivial=any(exp.values()))
    R.floor("R18.1", "grid", 40, n)
    # derived Finalize impls: no finalize item, one per probe
    fin = [i for i in F.impls if i.get("trait") and i["trait"].endswith("rust_cc::Finalize") and i["self_ty"].split("<")[0] not in ("L", "Shadow")]
    bad = [i["self_ty"] for i in fin if i["items"]]
    R.inst("R18.1", "derived-finalize-empty", not bad and len(fin) == len(probes), "%d derived Finalize impls for %d probes; impls with items: %s" % (len(fin), len(probes), bad or "none"), cfg="grid")
    # the generated Drop impls are empty
    drops = [f for f in F.fns.values() if f.impl_of and f.impl_of.get("trait") and f.impl_of["trait"].endswith("ops::Drop")]
    nonempty = [f.npath for f in drops if any(b["term"]["k"] in ("call", "drop") for b in f.blocks)]
    R.inst("R18.1", "generated-drop-empty", not nonempty and len(drops) == len(probes), "%d generated Drop impls (one per probe: %s), non-empty bodies: %s" % (len(drops), len(drops) == len(probes), nonempty or "none"), cfg="grid")
    R.notes["grid_probes"] = len(probes)


def _shape(pr):
    return "%s:%s" % (pr.name, "|".join("%s%s(%s)" % ("!" if vig else "", style, "".join("i" if ig else "t" for _, _, ig in fs)) for _, style, vig, fs in pr.variants))


def _field_of(recv, vname, kind):
    """Field name from a receiver access path like `*self.f1` or `(*self as V2).0`."""
    r = recv
    if r.startswith("&"):
        r = r[1:]
    last = r.rsplit(".", 1)
    if len(last) == 2:
        base, fld = last
        if kind == "enum" and (" as %s)" % vname) not in base:
            return "?" + recv
        if kind == "struct" and base not in ("*self", "self"):
            return "?" + recv
        return fld
    return "?" + recv


# ---- R18.2 -----------------------------------------------------------------------------------------------------

def macro_control_flow(R):
    R.doc("R18.2", "rust_cc_derive::derive_trace_trait: two gen_impl sites (Trace, Drop); the switch on no_drop returns the Trace impl alone on true and passes the Drop gen_impl and both "
                   "to_tokens on false; no_drop / filters are any(attr_contains(_, CONST)) closures with the right constants; filter_variants only under Data::Enum")
    try:
        F = Facts(build.get_derive_facts())
    except build.BuildError as e:
        R.inst("R18.2", "derive-build", False, "rust_cc_derive does not compile: %s" % e.errs[0][1][-800:], nontrivial=False)
        return
    P = Program(F)
    ign = F.consts.get("IGNORE", {}).get("str")
    und = F.consts.get("UNSAFE_NO_DROP", {}).get("str")
    R.inst("R18.2", "attribute-names", ign == "ignore" and und == "unsafe_no_drop", "IGNORE=%r UNSAFE_NO_DROP=%r (the documented attribute names)" % (ign, und), cfg="derive")
    dt = F.fn("derive_trace_trait")
    if dt is None:
        R.inst("R18.2", "anchor", False, "derive_trace_trait not found in rust_cc_derive", cfg="derive")
        return
    AC, GM = _recogniser_fns(F)
    ACN = AC.npath if AC is not None else "attr_contains"
    S = Super(P, dt, opaque={ACN} | ({GM.npath} if GM is not None else set()))

    def closure_const(env):
        """name of the constant a `|attr| attr_contains(attr, CONST)` closure passes."""
        v = tables.closure_value(S, env)
        if v is not None and strip(v)[0] in ("ret", "call") and strip(v)[1] == ACN:
            c = strip(strip(v)[2][1])
            return c[1] if c[0] == "const" else None
        return None

    def any_attr_const(e):
        """e == Iterator::any(<iter over attrs>, |attr| attr_contains(attr, CONST)) -> (CONST, iter expr)"""
        e = strip(e)
        if isinstance(e, tuple) and e[0] in ("call", "ret") and e[1] == "std::iter::Iterator::any":
            return closure_const(e[2][1]), fmt(e[2][0])
        return None, None

    gens = [n for n in S.call_nodes() if n.ci["k"] == "call" and n.ci["npath"] == "synstructure::Structure::<'a>::gen_impl"]   # also inside private helpers of the derive function (expanded here)
    ok = len(gens) == 2 and (S.dominates(gens[0], gens[1], exclude=("ui", "u")) or S.dominates(gens[1], gens[0], exclude=("ui", "u")))
    R.inst("R18.2", "two-gen_impl", ok, "gen_impl call sites in derive_trace_trait: %d (Trace impl then Drop impl)" % len(gens), where=dt.span, cfg="derive")
    if not ok:
        return
    g1, g2 = (gens[0], gens[1]) if S.dominates(gens[0], gens[1], exclude=("ui", "u")) else (gens[1], gens[0])
    # the switch on no_drop
    sws = []
    for n in S.nodes:
        if n.kind == "switch":
            c, it = any_attr_const(S.switch_expr(n))
            if c is not None:
                sws.append((n, c, it))
    nd = [x for x in sws if "UNSAFE_NO_DROP" in x[1]]
    R.inst("R18.2", "no_drop-definition", len(nd) == 1 and "attrs" in nd[0][2] and "ast(" in nd[0][2], "switches on any(attrs, attr_contains(_, UNSAFE_NO_DROP)): %s" % [(x[1], x[2][:80]) for x in nd], where=dt.span, cfg="derive")
    if len(nd) == 1:
        sw = nd[0][0]
        t_edge = [s for (s, lab) in sw.succ if isinstance(lab, tuple) and lab[1] == "otherwise"]
        f_edge = [s for (s, lab) in sw.succ if isinstance(lab, tuple) and lab[1] == 0]
        rt = S.reachable(t_edge, exclude=("ui", "u"))
        rf = S.reachable(f_edge, exclude=("ui", "u"))
        true_ok = g2.idx not in rt and S.dominates(g1, sw, exclude=("ui", "u"))
        okf, _ = S.must_pass(f_edge[0], lambda x: x is g2, S.returns, exclude=("ui", "u")) if f_edge else (False, None)
        # both impl streams are appended to the result on the false edge
        tok = [n for n in S.call_nodes() if n.ci["k"] == "call" and n.ci["npath"] == "quote::ToTokens::to_tokens" and n.idx in rf and S.dominates(g2, n, exclude=("ui", "u"))]
        args = [fmt(S.expand_rets(strip(S.args_of(n)[0]))) for n in tok]     # a helper that just returns the gen_impl stream is looked through
        both = any("gen_impl" in a and ("bb%d" % g1.bb) in a for a in args) and any("gen_impl" in a and ("bb%d" % g2.bb) in a for a in args)
        R.inst("R18.2", "drop-impl-unless-no_drop", true_ok and okf and both,
               "no_drop==true returns without the Drop gen_impl=%s; no_drop==false: Drop gen_impl on every path=%s and both streams appended to the result=%s" % (true_ok, okf, both), where=sw.where(), cfg="derive")
        # the Drop impl's token stream names core::ops::Drop / fn drop
        idents = set()
        for n in S.call_nodes():
            if n.ci["k"] == "call" and n.ci["npath"] == "quote::__private::push_ident" and n.idx in rf and S.dominates(sw, n, exclude=("ui", "u")) and not S.dominates(g2, n, exclude=("ui", "u")):
                a = S.args_of(n)
                if len(a) > 1 and strip(a[1])[0] == "const":
                    idents.add(str(strip(a[1])[1]).strip('"').replace("const ", "").strip('"'))
        need = {"Drop", "drop", "ops", "core", "impl", "self"}
        R.inst("R18.2", "drop-impl-tokens", need <= idents, "identifiers quoted for the second gen_impl: %s (required at least %s)" % (sorted(idents), sorted(need)), where=g2.where(), cfg="derive")
    # filters
    flt = [n for n in S.nodes if n.ci is not None and n.ci["k"] == "call" and n.ci["npath"] == "synstructure::Structure::<'a>::filter"]
    fv = [n for n in S.nodes if n.ci is not None and n.ci["k"] == "call" and n.ci["npath"] == "synstructure::Structure::<'a>::filter_variants"]
    for (nm, sites) in (("filter", flt), ("filter_variants", fv)):
        ok = len(sites) == 1
        det = "%d site(s)" % len(sites)
        if ok:
            env = strip(S.args_of(sites[0])[1])
            v = tables.closure_value(S, env)
            ok = False
            if v is not None:
                v_ = strip(v)
                if isinstance(v_, tuple) and v_[0] == "un" and v_[1] == "Not":
                    c, it = any_attr_const(v_[2])
                    ok = c is not None and "IGNORE" in c and "attrs" in it
                    det = "keeps a binding/variant iff !any(%s, attr_contains(_, %s))" % (it[:60], c)
                else:
                    det = "closure returns %s" % fmt(v)[:120]
        R.inst("R18.2", "filter:%s" % nm, ok, "%s: %s" % (nm, det), where=sites[0].where() if sites else dt.span, cfg="derive")
    if fv:
        lits = S.literals_at(fv[0], exclude=("ui", "u"))
        enum_only = any(a[0] == "discr" and "data" in fmt(a[1]) and t in (("is", 1),) for a, t in lits)
        R.inst("R18.2", "filter_variants-enum-only", enum_only, "filter_variants is under the literal `ast().data is Data::Enum`: %s" % lits_str(lits)[:200], where=fv[0].where(), cfg="derive")
    # each(): one trace call per remaining binding
    each = [n for n in S.nodes if n.ci is not None and n.ci["k"] == "call" and n.ci["npath"] == "synstructure::Structure::<'a>::each"]
    R.inst("R18.2", "each-binding", len(each) == 1 and all(S.dominates(x, each[0], exclude=("ui", "u")) for x in flt + fv if x in flt), "Structure::each (one trace call per binding) is called once, after the field filter: %s" % (len(each) == 1), where=dt.span, cfg="derive")
    recognisers(R, F, P)
    df = F.fn("derive_finalize_trait")
    if df is not None:
        Sb = Super(P, df, opaque=set())
        ab = [n for n in Sb.call_nodes() if n.ci["k"] == "call" and n.ci["npath"] == "synstructure::Structure::<'a>::add_bounds"]
        vals = [fmt(strip(Sb.args_of(n)[1])) for n in ab]
        R.inst("R18.2", "derive-finalize-unconditional", len(ab) == 1 and all("AddBounds::None" in v for v in vals),
               "derive(Finalize) calls add_bounds with %s (required AddBounds::None: the empty finalizer exists for every instantiation of a generic type)" % (vals or "nothing: synstructure's default adds one bound per type parameter"), where=df.span, cfg="derive")
    if df is not None:
        Sf = Super(P, df, opaque=set())
        g = [n for n in Sf.call_nodes() if n.ci["k"] == "call" and n.ci["npath"] == "synstructure::Structure::<'a>::gen_impl"]
        idents = set()
        for n in Sf.call_nodes():
            if n.ci["k"] == "call" and n.ci["npath"] == "quote::__private::push_ident":
                a = Sf.args_of(n)
                if len(a) > 1 and strip(a[1])[0] == "const":
                    idents.add(str(strip(a[1])[1]).strip('"'))
        R.inst("R18.2", "derive-finalize-empty", len(g) == 1 and "fn" not in idents and "finalize" not in idents and "Finalize" in idents, "derive(Finalize) quotes %s: one gen_impl, no `fn`" % sorted(idents), where=df.span, cfg="derive")


def _recogniser_fns(F):
    """(attr_contains, get_meta_items) found by signature, whatever they are called."""
    def sig(f):
        return tuple(f.locals[i]["ty"] for i in range(1, f.arg_count + 1)), f.locals[0]["ty"]
    top = [f for f in F.fns.values() if f.kind in ("fn", "Fn") and "{closure" not in f.npath]
    ac = [f for f in top if sig(f) == (("&syn::Attribute", "&str"), "bool")]
    gm = [f for f in top if sig(f) == (("&syn::Attribute",), "std::option::Option<&syn::MetaList>")]
    return (ac[0] if len(ac) == 1 else None), (gm[0] if len(gm) == 1 else None)


def recognisers(R, F, P):
    """get_meta_items / attr_contains never refuse silently and never accept without a match (valid for every attribute)."""
    ac, gm = _recogniser_fns(F)
    if gm is None or ac is None:
        R.inst("R18.2", "recognisers", False, "the attribute recognisers were not found in rust_cc_derive by signature: fn(&Attribute, &str) -> bool and fn(&Attribute) -> Option<&MetaList> (one of each)", cfg="derive")
        return
    EMIT = "proc_macro_error::Diagnostic::emit"
    S = Super(P, gm, opaque=set())
    bad = []
    k = 0
    for p in tables.normal_paths(S, limit=2000):
        ours = None
        for a, t in p.literals:
            # the name test on the attribute's own path: against the literal "rust_cc" or a named constant (the *value* of the name is
            # decided by the derive grid, whose `#[rust_cc(ignore)]` probes are honoured only if it is right; this rule is about totality)
            if a[0] == "bool" and re.search(r'is_ident\(path\(attr\)[^,]*, ("rust_cc"|[A-Z][A-Z0-9_]*)\)', fmt(a[1])):
                ours = t
        rv = fmt(strip(p.retval()))
        emitted = bool(p.calls(EMIT))
        k += 1
        if ours is True:
            if not (("Some" in rv and "attr.meta as List" in rv) or emitted):
                bad.append("a #[rust_cc ...] attribute yields %s without any diagnostic on path [%s]" % (rv, p.describe()[:160]))
        elif ours is False:
            if "None" not in rv:
                bad.append("a foreign attribute yields %s" % rv)
        else:
            bad.append("path without the `rust_cc` test: [%s]" % p.describe()[:160])
    R.inst("R18.2", "get_meta_items-total", not bad and k >= 3, "%d paths: rust_cc attribute -> Some(its list) or an emitted error; other attributes -> None; %s" % (k, bad or "ok"), where=gm.span, cfg="derive")
    S = Super(P, ac, opaque={gm.npath})
    bad = []
    k = t_paths = 0
    for p in tables.normal_paths(S, limit=5000):
        k += 1
        rv = strip(p.retval())
        found = False
        for a, t in p.literals:
            e = strip(a[1]) if a[0] == "bool" else None
            if t is True and isinstance(e, tuple) and e and e[0] in ("call", "ret") and e[1] == "syn::Path::is_ident" and len(e[2]) > 1 and strip(e[2][1])[:2] == ("param", "ident"):
                found = True
        if rv == ("const", 1):
            t_paths += 1
            if not found:
                bad.append("returns true without a matching identifier on path [%s]" % p.describe()[:160])
        elif rv == ("const", 0):
            if found:
                bad.append("returns false although the identifier matched on path [%s]" % p.describe()[:160])
        else:
            bad.append("returns %s" % fmt(rv))
    first = [n for n in S.call_nodes() if n.ci["k"] == "call" and n.ci["npath"] == gm.npath]
    arg_ok = len(first) == 1 and strip(S.args_of(first[0])[0]) == ("param", "attr", 1)
    R.inst("R18.2", "attr_contains-exact", not bad and t_paths >= 1 and arg_ok, "%d paths (%d returning true): true iff a Meta::Path equal to `ident` was found in get_meta_items(attr): %s" % (k, t_paths, bad or "ok"), where=ac.span, cfg="derive")


# ---- R18.3 ------------------------------------------------------------------------------------------------------------

WPRE = """#![allow(unused)]
extern crate rust_cc;
use rust_cc::*;
struct Leaf;
unsafe impl Trace for Leaf { fn trace(&self, _: &mut Context<'_>) {} }
impl Finalize for Leaf {}
struct NotTrace;
"""


def drop_witnesses(R):
    R.doc("R18.3", "compile-fail witnesses: derive(Trace) + user Drop impl => E0119 (struct, enum, generic); compiles with #[rust_cc(unsafe_no_drop)]; a non-Trace traced field => E0277")
    d, err = witness.ensure_libs()
    if d is None:
        R.inst("R18.3", "witness-build", False, "building the rlib for the witnesses failed:\n" + (err or ""), nontrivial=False)
        return
    ws = [
        witness.Witness("drop-conflict-struct", WPRE + "#[derive(Trace, Finalize)] //~ E0119\nstruct S { a: Cc<Leaf> }\nimpl Drop for S { fn drop(&mut self) {} }\n",
                        "#[derive(Trace, Finalize)] #[rust_cc(unsafe_no_drop)]", "a user Drop impl on a derive(Trace) struct conflicts with the generated one"),
        witness.Witness("drop-conflict-enum", WPRE + "#[derive(Trace, Finalize)] //~ E0119\nenum E { A(Cc<Leaf>), B }\nimpl Drop for E { fn drop(&mut self) {} }\n",
                        "#[derive(Trace, Finalize)] #[rust_cc(unsafe_no_drop)]", "a user Drop impl on a derive(Trace) enum conflicts with the generated one"),
        witness.Witness("drop-conflict-generic", WPRE + "#[derive(Trace, Finalize)] //~ E0119\nstruct G<T: Trace + 'static> { a: Cc<T> }\nimpl<T: Trace + 'static> Drop for G<T> { fn drop(&mut self) {} }\n",
                        "#[derive(Trace, Finalize)] #[rust_cc(unsafe_no_drop)]", "a user Drop impl on a generic derive(Trace) struct conflicts with the generated one"),
        witness.Witness("drop-conflict-unit", WPRE + "#[derive(Trace, Finalize)] //~ E0119\nstruct U;\nimpl Drop for U { fn drop(&mut self) {} }\n",
                        "#[derive(Trace, Finalize)] #[rust_cc(unsafe_no_drop)]", "a user Drop impl on a derive(Trace) unit struct conflicts with the generated one"),
        witness.Witness("untraceable-field", WPRE + "#[derive(Trace, Finalize)]\nstruct S {\n    a: NotTrace, //~ E0277\n}\n",
                        "    #[rust_cc(ignore)] a: NotTrace,", "a traced field must implement Trace"),
        witness.Witness("ignored-variant-untraceable-ok", WPRE + "#[derive(Trace, Finalize)]\nenum E {\n    A(NotTrace), //~ E0277\n    B,\n}\n",
                        "    #[rust_cc(ignore)] A(NotTrace),", "fields of a non-ignored variant must implement Trace"),
    ]
    from concurrent.futures import ThreadPoolExecutor
    _ws = list(ws)
    with ThreadPoolExecutor(max_workers=8) as _ex:       # independent rustc type-checks
        _res = list(_ex.map(lambda w_: w_.run(d), _ws))
    for w, (ok, det) in zip(_ws, _res):
        R.inst("R18.3", "witness:%s" % w.name, ok, "%s: %s" % (w.what, det), cfg="all-features")
    R.floor("R18.3", "all-features", 6, len(ws))
