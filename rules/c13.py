"""C13 - try_unwrap returns the value iff the pointer is unique, running no destructor."""
from engine.graph import Super, fmt, strip, U_KINDS
from engine import tables
from .common import *

LEVEL = "other"
EXPLANATION = ("Decision structure of Cc::try_unwrap on the MIR facts, every configuration: (R13.1) Ok is returned only on paths with strong_count()==1 and all phase flags false; "
               "(R13.2) the Ok path performs remove_from_list < ptr::read < layout < drop_metadata (weak-ptrs) < cc_dealloc on self's box and contains no finalizer/destructor callback; "
               "(R13.3) every other path returns Err(ManuallyDrop::into_inner(self)) - the very same pointer - with no mutator executed; layout generality comes from R3.1. "
               "Not decided: what strong_count()==1 means for a given history (C04).")


def check(R, F, P, cfg):
    fin = F.has("finalization")
    weak = F.has("weak-ptrs")
    DO = default_opaque(F)
    tu = anchor(F, "cc::Cc::<T>::try_unwrap")
    S = Super(P, tu, opaque=DO - {tu.npath})
    paths = [p for p in tables.normal_paths(S, limit=20000) if tables.consistent_with_closure_result(p)]
    flags = [ST + "is_collecting", ST + "is_dropping"] + ([ST + "is_finalizing"] if fin else [])

    R.doc("R13.1", "paths returning Ok: literal strong_count()==1 and every phase-flag read false")
    R.doc("R13.2", "Ok path event order: remove_from_list < ptr::read < layout < drop_metadata < cc_dealloc on one box; no callback")
    R.doc("R13.3", "paths returning Err: value is ManuallyDrop::into_inner of the ManuallyDrop::new(self) value; no primitive mutator, no callback")
    n_ok = n_err = 0
    selfexpr = None
    for n in S.calls_to("std::mem::ManuallyDrop::<T>::new"):
        selfexpr = S.args_of(n)[0]
    for p in paths:
        rv = p.retval()
        kind = None
        if isinstance(rv, tuple) and rv[0] == "agg" and rv[2].endswith("Result::Ok"):
            kind = "Ok"
        elif isinstance(rv, tuple) and rv[0] == "agg" and rv[2].endswith("Result::Err"):
            kind = "Err"
        lits = set(p.literals)
        muts = effect_calls(p.events)
        cbs = [x for x in p.events if x.ci.get("ukind") in U_KINDS]
        if kind == "Ok":
            n_ok += 1
            uniq = any(a[0] == "cmp" and a[1] == "Eq" and "strong_count" in fmt(a[2]) + fmt(a[3]) and a[3] == ("const", 1) and t is True for a, t in lits) or \
                any(a[0] == "cmp" and a[1] == "Eq" and getter_of(a[2])[0] == CM + "counter" and a[3] == ("const", 1) and t is True for a, t in lits)
            fl_ok = all(any(a[0] == "bool" and getter_of(a[1])[0] == g and t is False for a, t in lits) for g in flags)
            R.inst("R13.1", "ok-guard", uniq and fl_ok, "Ok path literals %s; required strong_count()==1 and !%s" % (p.describe()[:300], [short(g) for g in flags]), where=tu.span, cfg=cfg)
            seq = [x.ci["npath"] for x in p.events if x.ci["k"] == "call" and x.ci["npath"] in ("cc::remove_from_list", "std::ptr::read", CCBOX + "layout", CCBOX + "drop_metadata", "utils::cc_dealloc")]
            want = ["cc::remove_from_list", "std::ptr::read", CCBOX + "layout"] + ([CCBOX + "drop_metadata"] if weak else []) + ["utils::cc_dealloc"]
            boxes = {fmt(obj_of(S.args_of(x)[0])) for x in p.events if x.ci["k"] == "call" and x.ci["npath"] in want}
            # the value returned is what ptr::read produced
            cr = tables.closure_result_on_path(p)
            val_ok = "read(" in fmt(rv) or any(c[0] == "ran" and c[1] is not None and fmt(c[1]).startswith("std::option::Option::Some{read(") for c in cr.values())
            R.inst("R13.2", "ok-sequence", seq == want and len(boxes) == 1 and not cbs and val_ok, "Ok path performs %s on box(es) %s; callbacks %s; returns the value read=%s; required order %s" % ([short(s) for s in seq], sorted(boxes), [x.ci.get("ukind") for x in cbs], val_ok, [short(s) for s in want]), where=tu.span, cfg=cfg)
        elif kind == "Err":
            n_err += 1
            same = isinstance(rv[3][0], tuple) and strip(rv[3][0]) == strip(selfexpr) if selfexpr is not None else False
            into = any(x.ci["k"] == "call" and x.ci["npath"] == "std::mem::ManuallyDrop::<T>::into_inner" for x in p.events)
            R.inst("R13.3", "err-path", same and into and not muts and not cbs, "Err path [%s]: returns self unchanged=%s; mutators %s; callbacks %s" % (p.describe()[:160], same and into, [short(x.ci["npath"]) for x in muts], [x.ci.get("ukind") for x in cbs]), where=tu.span, cfg=cfg)
        else:
            R.inst("R13.3", "unknown-return", False, "path returns %s" % fmt(rv)[:100], where=tu.span, cfg=cfg)
    R.floor("R13.1", cfg, 1, n_ok)
    R.floor("R13.3", cfg, 3, n_err)
    # completeness of the Ok side: with unique & all flags false (and state accessible) the result is Ok
    ok_total = True
    for p in paths:
        lits = set(p.literals)
        uniq = any(a[0] == "cmp" and a[1] == "Eq" and a[3] == ("const", 1) and t is True and ("strong_count" in fmt(a[2]) or getter_of(a[2])[0] == CM + "counter") for a, t in lits)
        fl_all = all(any(a[0] == "bool" and getter_of(a[1])[0] == g and t is False for a, t in lits) for g in flags)
        skipped = any(lab == "skip" for (_, lab) in p.path)
        rv = p.retval()
        if uniq and fl_all and not skipped and not (isinstance(rv, tuple) and rv[0] == "agg" and rv[2].endswith("Result::Ok")):
            ok_total = False
    R.inst("R13.1", "ok-iff", ok_total, "every path with strong_count()==1, all flags false and accessible state returns Ok: %s" % ok_total, where=tu.span, cfg=cfg)
