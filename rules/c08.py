"""C08 - Weak::upgrade succeeds exactly while the value is alive."""
from engine.graph import Super, fmt, strip, U_KINDS
from engine import tables
from .common import *

LEVEL = "other"
EXPLANATION = ("Structural necessary conditions on the MIR facts (weak-ptrs configurations): (R8.1) the truth table of Weak::strong_count over its six atoms equals the specification read "
               "from the property (0 unless side record present & accessible & count != 0 & !dropped & !(collector-owned & dropping), else the count; state-unavailable defaults to "
               "`dropping`), upgrade hands out a Cc only on strong_count()!=0 after the Ok edge of increment_counter, and the box is dereferenced only under the accessible literal; "
               "(R8.2) set_dropped(true) dominates every payload drop (both reclamation paths) and R7.4 covers the unwound list; (R8.3) drop_metadata precedes every cc_dealloc; "
               "(R8.4) Weak/Cleanable own nothing: no Cc in their type tree, Weak::trace has an empty body, Weak::clone/drop touch only the weak counter; (R8.5) Weak::new has no record. "
               "Combined with the reachable-flag-state table of C12 this lists, finitely, what upgrade returns in every callback context. Not decided: histories.")


def check(R, F, P, cfg):
    if not F.has("weak-ptrs"):
        R.inst("R8.0", "no-weak-ptrs", True, "configuration without weak-ptrs: Weak does not exist", cfg=cfg, nontrivial=False)
        return
    DO = default_opaque(F)

    # ---- R8.1 decision table ------------------------------------------------------------------------------
    R.doc("R8.1", "truth table of Weak::strong_count == spec; upgrade returns Some only on strong_count()!=0 and after a successful increment; box deref only under the accessible literal")
    sc = anchor(F, "weak::Weak::<T>::strong_count")
    S = Super(P, sc, opaque=(DO - {sc.npath}) | {WCMH})
    paths = tables.normal_paths(S)
    # the private accessor (when the crate has one; its uses may as well read self.metadata directly): Some(&record.weak_counter_marker) iff self.metadata is Some
    hf = F.fn(WCMH)
    hp = tables.normal_paths(Super(P, hf, opaque=DO)) if hf is not None else []
    hbad = []
    for p in hp:
        rv = p.retval()
        some = isinstance(rv, tuple) and rv[0] == "agg" and rv[2].endswith("Option::Some")
        present = None
        for a, t in p.literals:
            if a[0] == "discr" and "metadata" in fmt(a[1]):
                # Try::branch on Option: Continue(0) = Some, Break(1) = None; plain discriminant: 1 = Some
                if "branch" in fmt(a[1]):
                    present = (t == ("is", 0))
                else:
                    present = (t in (("is", 1), ("not", 0)))
        if present is None or some != present:
            hbad.append("%s -> %s" % (p.describe()[:80], fmt(rv)[:60]))
        if some and "weak_counter_marker" not in fmt(rv):
            hbad.append("Some of something else: %s" % fmt(rv)[:80])
    if hf is not None:
      R.inst("R8.1", "weak_counter_marker-helper", not hbad and len(hp) == 2, "Weak::weak_counter_marker: Some(&record.weak_counter_marker) iff metadata is Some: %s" % (hbad or "yes"), where=hf.span, cfg=cfg)

    def atom_of_expr(e):
        e = strip(e)
        if not isinstance(e, tuple):
            return None
        if e[0] == "call" and e[1] == "std::option::Option::<T>::map_or" and len(e[2]) == 3 and e[2][1] == ("const", 0):
            v = tables.closure_value(S, e[2][2])
            if v is not None and strip(v)[0] == "call" and strip(v)[1] == WCM + "is_accessible":
                if is_self_record_opt(e[2][0]):
                    return "present_accessible"
        if e[0] == "call" and e[1] == WCM + "is_accessible":
            if within_self_record(e[2][0]):
                return "accessible"
        if e[0] == "call" and e[1] == "std::result::Result::<T, E>::unwrap_or" and len(e[2]) == 2 and e[2][1] == ("const", 1):
            inner = strip(e[2][0])
            if inner[0] == "ret" and inner[1] == "state::try_state":
                v = tables.closure_value(S, inner[2][0])
                if v is not None and strip(v)[0] == "call" and strip(v)[1] == ST + "is_dropping":
                    return "dropping_or_unavailable"
        if e[0] == "call" and e[1] == CM + "is_dropped":
            return "dropped"
        if e[0] == "call" and e[1] == CM + "is_in_list_or_queue":
            return "collector_owned"
        return None

    def atomise(a, tr):
        if a[0] == "bool":
            n = atom_of_expr(a[1])
            if n == "present_accessible":
                # one test for both: true fixes both atoms; false is `not (present and accessible)`
                return ("pred", (lambda g: g["present"] and g["accessible"]) if tr else (lambda g: not (g["present"] and g["accessible"])))
            if n:
                return (n, tr)
        if a[0] == "discr" and isinstance(tr, tuple):
            if is_self_record_opt(a[1]):
                if tr in (("is", 1), ("not", 0)):
                    return ("present", True)
                if tr in (("is", 0), ("not", 1)):
                    return ("present", False)
        if a[0] == "cmp" and a[1] == "Eq" and getter_of(a[2])[0] == CM + "counter" and a[3] == ("const", 0):
            return ("count_zero", tr)
        return None
    atoms = ["present", "accessible", "count_zero", "dropped", "collector_owned", "dropping_or_unavailable"]

    def spec(g):
        alive = g["present"] and g["accessible"] and not g["count_zero"] and not g["dropped"] and not (g["collector_owned"] and g["dropping_or_unavailable"])
        return "count" if alive else "zero"

    def result_of(p, g):
        rv = strip(p.retval())
        if rv == ("const", 0):
            return "zero"
        if isinstance(rv, tuple) and rv[0] == "call" and rv[1] == CM + "counter":
            return "count"
        raise tables.TableMismatch("result %s" % fmt(rv))
    probs = tables.check_table(paths, atomise, spec, result_of, atoms)
    R.inst("R8.1", "strong_count-table", not probs, "; ".join(probs[:6]) if probs else "%d paths x %d atoms (64 rows): implementation == specification" % (len(paths), len(atoms)), where=sc.span, cfg=cfg)
    # deref of the box only under accessible
    derefs = [n for n in S.call_nodes() if n.ci["k"] == "call" and any("self.cc" in fmt(a) for a in S.args_of(n))]
    bad = []
    for n in derefs:
        lits = S.literals_at(n, exclude=("ui", "u"))
        both = any(a[0] == "bool" and atom_of_expr(a[1]) == "present_accessible" and t is True for a, t in lits)
        split = any(atomise(a, t) == ("present", True) for a, t in lits) and any(a[0] == "bool" and atom_of_expr(a[1]) == "accessible" and t is True for a, t in lits)
        if not (both or split):
            bad.append(n.where())
    R.inst("R8.1", "deref-only-if-accessible", not bad and derefs, "%d uses of self.cc in strong_count, all under `record present & accessible`: %s" % (len(derefs), bad or "yes"), where=sc.span, cfg=cfg)

    up = anchor(F, "weak::Weak::<T>::upgrade")
    S = Super(P, up, opaque=DO - {up.npath})
    ps = tables.normal_paths(S)
    bad = []
    k_some = 0
    for p in ps:
        rv = p.retval()
        is_some = isinstance(rv, tuple) and rv[0] == "agg" and rv[2].endswith("Option::Some")
        zero = None
        for a, t in p.literals:
            if a[0] == "cmp" and a[1] == "Eq" and strip(a[2])[0] == "ret" and strip(a[2])[1] == "weak::Weak::<T>::strong_count" and a[3] == ("const", 0):
                zero = t
        if is_some:
            k_some += 1
            incs = p.calls(CM + "increment_counter")
            inc_ok = any(a[0] == "bool" and "is_err" in fmt(a[1]) and "increment_counter" in fmt(a[1]) and t is False for a, t in p.literals)
            alive = [x for x in p.events if x.ci["k"] == "call" and x.ci["npath"] in ("cc::Cc::<T>::mark_alive", "cc::remove_from_list")]
            same_alloc = fmt(rv).count("self.cc") >= 1 and (len(incs) != 1 or fmt(obj_of(S.args_of(incs[0])[0])).endswith("self.cc"))
            if zero is not False or len(incs) != 1 or not inc_ok or not alive or not same_alloc:
                bad.append("Some on [%s] (returns %s)" % (p.describe()[:140], fmt(rv)[:80]))
        else:
            if zero is not True or p.calls(CM + "increment_counter"):
                bad.append("None on [%s]" % p.describe()[:140])
    R.inst("R8.1", "upgrade-table", not bad and k_some >= 1, "%d paths of upgrade: Some iff strong_count()!=0, with exactly one successful increment and mark_alive: %s" % (len(ps), bad or "yes"), where=up.span, cfg=cfg)

    # ---- R8.2 set_dropped before every payload drop --------------------------------------------------------------
    R.doc("R8.2", "set_dropped(true) on the object dominates its payload drop in Cc::drop and in drop_inner")
    k = 0
    for fname in ("<cc::Cc<T> as std::ops::Drop>::drop", CCBOX0 + "drop_inner"):
        f = anchor(F, fname)
        S = Super(P, f, opaque=DO - {fname})
        drops = [n for n in S.call_nodes() if (n.ci.get("ukind") == "DROP" and n.ci["k"] == "call") or (n.ci["k"] == "call" and n.ci["npath"] == "cc::InternalTrace::drop_elem")]
        for d in drops:
            k += 1
            obj = obj_of(S.args_of(d)[0])
            sd = [x for x in S.calls_to(CM + "set_dropped") if obj_of(S.args_of(x)[0]) == obj and S.args_of(x)[1] == ("const", 1) and S.dominates(x, d, exclude=("ui", "u"))]
            R.inst("R8.2", "set_dropped-before-drop:%s" % fname, bool(sd), "payload drop of %s is %sdominated by set_dropped(true) on it" % (fmt(obj), "" if sd else "NOT "), where=d.where(), cfg=cfg)
    R.floor("R8.2", cfg, 2, k)
    own = owners_of_calls(P, lambda c: c["npath"] == CM + "set_dropped")
    R.inst("R8.2", "who-sets-dropped", set(own) <= {"<cc::Cc<T> as std::ops::Drop>::drop", CCBOX0 + "drop_inner", "deallocate_list"}, "set_dropped called from %s" % sorted(own), cfg=cfg)

    # ---- R8.3 drop_metadata before every cc_dealloc: R3.2 re-evaluated on this configuration ---------------------------
    R.doc("R8.3", "every cc_dealloc is dominated by drop_metadata on the same box (which clears `accessible` while Weaks exist)")
    k = 0
    for (f, bb, ci) in P.call_sites(lambda c: c["npath"] == "utils::cc_dealloc"):
        rootf = site_root(P, f)
        Sx = Super(P, rootf, opaque=DO - {rootf.npath})
        for n in [x for x in Sx.calls_to("utils::cc_dealloc") if x.ctx.fn is f and x.bb == bb]:
            k += 1
            box = obj_of(Sx.args_of(n)[0])
            dms = [x for x in Sx.calls_to(CCBOX + "drop_metadata") if obj_of(Sx.args_of(x)[0]) == box and Sx.dominates(x, n, exclude=("ui", "u"))]
            R.inst("R8.3", "drop_metadata-before-free:%s" % rootf.npath, bool(dms), "cc_dealloc(%s) dominated by drop_metadata: %s" % (fmt(box), bool(dms)), where=n.where(), cfg=cfg)
    R.floor("R8.3", cfg, 4, k)

    # ---- R8.4 weak = no ownership -----------------------------------------------------------------------------------------
    R.doc("R8.4", "Weak (and Cleanable) contain no Cc in their field types; Weak::trace has no call in its body; Weak::clone and Weak::drop call no strong-counter mutator and no list operation")
    for ty in ["weak::Weak"] + (["cleaners::Cleanable"] if F.has("cleaners") else []):
        adt = adt_of_type(F, ty)
        if adt is None:
            raise AnchorMissing(ty)
        ftys = [fl["ty"] for v in adt["variants"] for fl in v["fields"]]
        owning = [t for t in ftys if "Cc<" in t.replace("CcBox<", "").replace("PhantomData<", "#") and not t.startswith("std::marker::PhantomData") and "NonNull" not in t]
        R.inst("R8.4", "no-cc-field:%s" % ty, not owning, "%s fields: %s; owning Cc fields: %s" % (ty, ftys, owning or "none"), where=adt["span"], cfg=cfg)
    wt = anchor(F, "<weak::Weak<T> as trace::Trace>::trace")
    calls = [b["term"] for b in wt.blocks if b["term"]["k"] in ("call", "drop")]
    R.inst("R8.4", "weak-trace-empty", not calls, "Weak::trace body has %d call/drop terminators (must be 0)" % len(calls), where=wt.span, cfg=cfg)
    for fname in ("<weak::Weak<T> as std::clone::Clone>::clone", "<weak::Weak<T> as std::ops::Drop>::drop"):
        f = anchor(F, fname)
        S = Super(P, f, opaque=DO - {fname})
        strong = [n.ci["npath"] for n in S.call_nodes() if n.ci["k"] == "call" and (n.ci["npath"] in (CM + "increment_counter", CM + "decrement_counter", CM + "mark", CM + "set_dropped", CM + "set_finalized", "cc::add_to_list", "cc::remove_from_list", "utils::cc_dealloc") or n.ci["npath"].startswith((LL, PC, LQ)))]
        R.inst("R8.4", "weak-touches-only-weak-counter:%s" % fname, not strong, "strong-count/list/box operations in %s: %s" % (fname, strong or "none"), where=f.span, cfg=cfg)

    # ---- R8.5 Weak::new -------------------------------------------------------------------------------------------------------
    R.doc("R8.5", "Weak::new builds metadata: None (table row `no record` => strong_count 0 => upgrade None)")
    wn = anchor(F, "weak::Weak::<T>::new")
    S = Super(P, wn, opaque=DO)
    ps = tables.normal_paths(S)
    rv = ps[0].retval() if ps else None
    ok = isinstance(rv, tuple) and rv[0] == "agg" and rv[2].endswith("weak::Weak::Weak") and "metadata" in rv[4] and fmt(rv[3][rv[4].index("metadata")]).endswith("Option::None{}")
    R.inst("R8.5", "weak-new-no-record", ok, "Weak::new() = %s" % fmt(rv), where=wn.span, cfg=cfg)
