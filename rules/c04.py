"""C04 - Rc equivalence: last-owner drop reclaims at once; strong_count is exact."""
from engine.graph import Super, fmt, strip, U_KINDS
from engine import tables
from .common import *
from . import c07

LEVEL = "other"
EXPLANATION = ("Structural necessary conditions on the MIR facts: (R4.1) count discipline - every Cc constructed from an existing box is dominated by a successful increment (C01/R1.9), "
               "Cc::drop decrements exactly once on every normal path and at most once before any unwind exit (too high after a panic is allowed, too low never), the sites that bypass "
               "Cc::drop are the closed allow-list of R7.3, strong_count() returns counter() unchanged, and the strong counter is written by nobody else; (R4.2) immediate reclamation - "
               "from the edge !is_in_list_or_queue & counter==1 every normal path except the resurrected one reaches payload drop and cc_dealloc before returning, and no phase flag "
               "guards that path, so owned children dropped recursively are reclaimed at once as well, buffered or not. Exactness for all histories follows by induction; not mechanised.")


def check(R, F, P, cfg):
    fin = F.has("finalization")
    weak = F.has("weak-ptrs")
    DO = default_opaque(F)

    R.doc("R4.1", "who may write the strong counter; one decrement per normal path of Cc::drop, at most one before any unwind exit; strong_count forwards counter()")
    own = owners_of_calls(P, lambda c: c["npath"] == CM + "increment_counter")
    exp = {"<cc::Cc<T> as std::clone::Clone>::clone"} | ({"weak::Weak::<T>::upgrade", "weak::<impl cc::Cc<T>>::new_cyclic"} if weak else set())
    R.inst("R4.1", "who-increments", set(own) == exp, "increment_counter (strong) is called from %s (expected %s)" % (sorted(own), sorted(exp)), cfg=cfg)
    own = owners_of_calls(P, lambda c: c["npath"] == CM + "decrement_counter")
    exp = {"<cc::Cc<T> as std::ops::Drop>::drop"} | ({"weak::<impl cc::Cc<T>>::new_cyclic"} if weak else set())
    R.inst("R4.1", "who-decrements", set(own) == exp, "decrement_counter (strong) is called from %s (expected %s)" % (sorted(own), sorted(exp)), cfg=cfg)
    # direct writes to the counter cell outside CounterMarker
    wr = []
    for f in F.fns.values():
        if f.npath.startswith(CM):
            continue
        for b in f.blocks:
            t = b["term"]
            if t["k"] == "call" and t["callee"].get("path", "").startswith("core::cell::Cell::<T>::set") or (t["k"] == "call" and "Cell::<T>::set" in t["callee"].get("path", "") or t["k"] == "call" and "Cell::<T>::replace" in t["callee"].get("path", "")):
                for a in t["args"][:1]:
                    if a["k"] in ("copy", "move"):
                        pass
                # receiver type
                if t["args"] and "counter_marker::CounterMarker" in str(t["args"][0]):
                    wr.append(f.npath)
    R.inst("R4.1", "counter-cell-private", not wr, "writes to CounterMarker cells outside impl CounterMarker: %s" % (wr or "none"), cfg=cfg, nontrivial=False)
    cmadt = adt_of_type(F, "counter_marker::CounterMarker")
    priv = cmadt is not None and all(fl["vis"] not in ("pub", "crate") for fl in cmadt["variants"][0]["fields"])
    R.inst("R4.1", "counter-fields-private", priv, "CounterMarker fields are private to its module: %s" % priv, cfg=cfg, nontrivial=False)

    dr = anchor(F, "<cc::Cc<T> as std::ops::Drop>::drop")
    S = Super(P, dr, opaque=DO - {dr.npath})
    selfobj = None
    for n in S.calls_to("utils::cc_dealloc"):
        selfobj = obj_of(S.args_of(n)[0])
    paths = tables.normal_paths(S, limit=20000)
    bad = [p.describe()[:120] for p in paths if len([x for x in p.calls(CM + "decrement_counter") if obj_of(S.args_of(x)[0]) == selfobj]) != 1]
    R.inst("R4.1", "drop-one-decrement", not bad and len(paths) >= 3, "%d normal paths of Cc::drop with exactly one decrement_counter(self): %s" % (len(paths), bad or "all"), where=dr.span, cfg=cfg)
    # at most once before any unwind exit: no decrement node can reach another decrement node
    decs = [x for x in S.calls_to(CM + "decrement_counter") if obj_of(S.args_of(x)[0]) == selfobj]
    twice = []
    for d in decs:
        reach = S.reachable(d, exclude=("ui",))
        for e in decs:
            if e is not d and e.idx in reach:
                twice.append((d.where(), e.where()))
            if e is d and on_cycle(S, d, exclude=("ui",)):
                twice.append((d.where(), "itself (loop)"))
    R.inst("R4.1", "drop-at-most-one-decrement-on-unwind", not twice, "pairs of decrement sites on one (normal or unwinding) path of Cc::drop: %s" % (twice or "none"), where=dr.span, cfg=cfg)
    # clone: exactly one increment on every normal path
    cl = anchor(F, "<cc::Cc<T> as std::clone::Clone>::clone")
    Sc = Super(P, cl, opaque=DO - {cl.npath})
    ps = tables.normal_paths(Sc)
    bad = [p.describe()[:100] for p in ps if len(p.calls(CM + "increment_counter")) != 1]
    R.inst("R4.1", "clone-one-increment", not bad and ps, "%d normal paths of Cc::clone with exactly one increment_counter: %s" % (len(ps), bad or "all"), where=cl.span, cfg=cfg)
    sc = anchor(F, "cc::Cc::<T>::strong_count")
    Ss = Super(P, sc, opaque=DO - {sc.npath})
    ps = tables.normal_paths(Ss)
    rv = ps[0].retval() if len(ps) == 1 else None
    ok = rv is not None and strip(rv)[0] == "call" and strip(rv)[1] == CM + "counter" and obj_of(strip(rv)[2][0])[0] == "field" or (rv is not None and strip(rv)[0] == "call" and strip(rv)[1] == CM + "counter")
    R.inst("R4.1", "strong_count-forwards", bool(ok), "strong_count() returns %s (required: counter() of self's box, unmodified)" % fmt(rv), where=sc.span, cfg=cfg)
    # bypass sites of Cc::drop: closed set (evaluated by R7.3's classifier)
    k = 0
    for (f, bb, ci, ty, adt) in c07.forget_sites(F, P):
        if type_head(ty) != "cc::Cc":
            continue
        k += 1
        rootf = root_of(P, f)
        Sx = Super(P, rootf, opaque=DO - {rootf.npath})
        for N in [x for x in Sx.nodes if x.ctx.fn is f and x.bb == bb]:
            kind, ok, det = c07.classify_forget(Sx, F, P, N, ty, adt, rootf)
            R.inst("R4.1", "bypass-drop:%s" % rootf.npath, ok, "[%s] %s" % (kind, det), where=N.where(), cfg=cfg)
    R.floor("R4.1/bypass", cfg, 1, k)

    # ---- R4.2 immediate reclamation ------------------------------------------------------------------------------------------
    R.doc("R4.2", "Cc::drop: every normal path with !is_in_list_or_queue & counter==1 that is not the resurrected one passes payload drop and cc_dealloc; the literals guarding the free are "
                  "only those on the object itself (no phase flag), so recursive drops from destructors reclaim immediately too")
    bad = []
    k = 0
    for p in paths:
        inlq_f = any(a[0] == "bool" and getter_of(a[1])[0] == CM + "is_in_list_or_queue" and t is False for a, t in p.literals)
        one = any(a[0] == "cmp" and a[1] == "Eq" and getter_of(a[2])[0] == CM + "counter" and a[3] == ("const", 1) and t is True for a, t in p.literals)
        if not (inlq_f and one):
            continue
        # resurrected: the re-read after the finalizer says counter != 1
        lits_eq = [t for a, t in p.literals if a[0] == "cmp" and a[1] == "Eq" and getter_of(a[2])[0] == CM + "counter" and a[3] == ("const", 1)]
        resurrected = False in lits_eq
        if resurrected:
            continue
        k += 1
        nf = None
        for a, t in p.literals:
            if a[0] == "bool" and getter_of(a[1])[0] == CM + "needs_finalization":
                nf = t
        has_drop = any(x.ci.get("ukind") == "DROP" and x.ci["k"] == "call" for x in p.events)
        has_free = bool(p.calls("utils::cc_dealloc"))
        has_fin = any(x.ci.get("ukind") == "FINALIZE" for x in p.events)
        ok = has_drop and has_free and (not fin or (has_fin == (nf is True)))
        if not ok:
            bad.append("drop=%s free=%s finalize=%s needs_finalization=%s on [%s]" % (has_drop, has_free, has_fin, nf, p.describe()[:100]))
    R.inst("R4.2", "last-owner-reclaims", not bad and k >= (2 if fin else 1), "%d last-owner paths; each finalizes iff due, drops the payload and frees the box before returning: %s" % (k, bad or "yes"), where=dr.span, cfg=cfg)
    for n in S.calls_to("utils::cc_dealloc"):
        lits = S.literals_at(n, exclude=("ui", "u"))
        flaglits = [a for a, t in lits if a[0] == "bool" and getter_of(a[1])[0] in (ST + "is_collecting", ST + "is_dropping", ST + "is_finalizing", ST + "is_tracing")]
        # the debug-only `if state.is_tracing() { panic }` check is a literal too; it is not a guard of the free in release builds and diverges otherwise
        flaglits = [a for a in flaglits if not _through_state_panic(a)]
        R.inst("R4.2", "no-phase-guard-on-free", not flaglits, "phase-flag literals guarding cc_dealloc in Cc::drop: %s" % ([tables.fmt_atom(a) for a in flaglits] or "none"), where=n.where(), cfg=cfg)


def _through_state_panic(a):
    return "is_tracing" in fmt(a[1])
